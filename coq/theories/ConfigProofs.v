(* Property C18: an accepted connector table cannot make a request loop between load balancers.
   Main result: accepted_tables_terminate.  Converse direction: self_member_rejected,
   cycle_can_exhaust_any_fuel. *)
From RP Require Import Base Config.
Local Open Scope nat_scope.

(* ---------- alookup ---------- *)

Lemma alookup_In {V} (n : N) (t : list (N * V)) (v : V) :
  alookup n t = Some v -> In (n, v) t.
Proof.
  induction t as [|[k w] r IH]; simpl; [discriminate|].
  destruct (N.eqb_spec n k) as [->|_]; intro H.
  - inversion H; subst; now left.
  - right; auto.
Qed.

Lemma alookup_In_fst {V} (n : N) (t : list (N * V)) (v : V) :
  alookup n t = Some v -> In n (map fst t).
Proof.
  intro H. apply alookup_In in H. change n with (fst (n, v)). now apply in_map.
Qed.

(* ---------- reachb ---------- *)

Lemma reachb_one k t a m : In m (members_of t a) -> reachb (S k) t a m = true.
Proof.
  intro H. simpl. apply existsb_exists. exists m. split; [assumption|].
  now rewrite N.eqb_refl.
Qed.

Lemma reachb_mono k : forall k' t a b, reachb k t a b = true -> k <= k' -> reachb k' t a b = true.
Proof.
  induction k as [|k IH]; intros k' t a b H Hle; [discriminate|].
  destruct k' as [|k']; [lia|].
  simpl in *. apply existsb_exists in H. destruct H as [x [Hx Hr]].
  apply existsb_exists. exists x. split; [assumption|].
  apply orb_true_iff in Hr. apply orb_true_iff. destruct Hr as [Hr|Hr]; [now left|right].
  apply IH; [assumption|lia].
Qed.

(* extend a path at its end *)
Lemma reachb_step k : forall t a b m,
  reachb k t a b = true -> In m (members_of t b) -> reachb (S k) t a m = true.
Proof.
  induction k as [|k IH]; intros t a b m H Hm; [discriminate|].
  change (existsb (fun x => (x =? b)%N || reachb k t x b) (members_of t a) = true) in H.
  change (existsb (fun x => (x =? m)%N || reachb (S k) t x m) (members_of t a) = true).
  apply existsb_exists in H. destruct H as [x [Hx Hr]].
  apply existsb_exists. exists x. split; [assumption|].
  apply orb_true_iff. right.
  apply orb_true_iff in Hr. destruct Hr as [Hr|Hr].
  - apply N.eqb_eq in Hr. subst x. now apply reachb_one.
  - now apply IH with (b := b).
Qed.

(* ---------- what acceptance gives for a load balancer ---------- *)

Lemma table_ok_lb t n ms :
  table_ok t = true -> alookup n t = Some (KLb ms) -> lb_verify t n ms = true.
Proof.
  unfold table_ok. intros H Hl. apply andb_true_iff in H. destruct H as [_ H].
  rewrite forallb_forall in H. specialize (H _ (alookup_In _ _ _ Hl)). exact H.
Qed.

Lemma lb_verify_parts t n ms :
  lb_verify t n ms = true ->
  ms <> [] /\ (forall m, In m ms -> is_some (alookup m t) = true) /\
  reachb (length t) t n n = false.
Proof.
  unfold lb_verify. intro H.
  apply andb_true_iff in H. destruct H as [H H3].
  apply andb_true_iff in H. destruct H as [H1 H2].
  split; [|split].
  - destruct ms; [discriminate|discriminate].
  - intros m Hm. rewrite forallb_forall in H2. now apply H2.
  - now apply negb_true_iff in H3.
Qed.

Lemma nth_error_mod_some {A} (ms : list A) (c : nat) :
  ms <> [] -> exists m, nth_error ms (c mod length ms) = Some m /\ In m ms.
Proof.
  intro Hne.
  assert (Hlt : c mod length ms < length ms).
  { apply Nat.mod_upper_bound. destruct ms; [congruence|simpl; lia]. }
  destruct (nth_error ms (c mod length ms)) as [m|] eqn:E.
  - exists m. split; [reflexivity|]. eapply nth_error_In; eauto.
  - apply nth_error_None in E. lia.
Qed.

(* ---------- the invariant ---------- *)

(* `visited`: the distinct load balancers the request already went through; each of them reaches the
   current connector within `length visited` member steps *)
Definition inv (t : ctable) (visited : list N) (n : N) : Prop :=
  NoDup visited /\
  (forall v, In v visited -> exists ms, alookup v t = Some (KLb ms)) /\
  (forall v, In v visited -> reachb (length visited) t v n = true).

Lemma inv_length t visited n : inv t visited n -> length visited <= length t.
Proof.
  intros [Hnd [Hlb _]].
  rewrite <- (map_length fst t). apply NoDup_incl_length; [assumption|].
  intros v Hv. destruct (Hlb v Hv) as [ms Hms]. eapply alookup_In_fst; eauto.
Qed.

Lemma inv_step t visited n ms m :
  table_ok t = true -> inv t visited n -> alookup n t = Some (KLb ms) -> In m ms ->
  inv t (n :: visited) m.
Proof.
  intros Hok Hinv Hl Hm.
  pose proof (inv_length _ _ _ Hinv) as Hlen.
  destruct Hinv as [Hnd [Hlb Hreach]].
  assert (Hmem : In m (members_of t n)) by (unfold members_of; now rewrite Hl).
  split; [|split].
  - constructor; [|assumption]. intro Hin.
    destruct (lb_verify_parts _ _ _ (table_ok_lb _ _ _ Hok Hl)) as [_ [_ Hno]].
    rewrite (reachb_mono _ _ _ _ _ (Hreach n Hin) Hlen) in Hno. discriminate.
  - intros v [<-|Hv]; [now exists ms|now apply Hlb].
  - intros v [<-|Hv]; simpl length.
    + now apply reachb_one.
    + apply reachb_step with (b := n); auto.
Qed.

Lemma resolve_inv t : table_ok t = true ->
  forall f visited n choices,
  f + length visited = S (length t) -> inv t visited n -> is_some (alookup n t) = true ->
  exists leaf, resolve f t n choices = Leaf leaf /\ alookup leaf t = Some KPlain.
Proof.
  intros Hok. induction f as [|f IH]; intros visited n choices Hf Hinv Hsome.
  - pose proof (inv_length _ _ _ Hinv). simpl in Hf. lia.
  - simpl. destruct (alookup n t) as [[|ms]|] eqn:Hl; [| |discriminate].
    + exists n. now split.
    + destruct (lb_verify_parts _ _ _ (table_ok_lb _ _ _ Hok Hl)) as [Hne [Hex _]].
      destruct (nth_error_mod_some ms (match choices with c :: _ => c | [] => 0 end) Hne)
        as [m [Hnth Hm]].
      rewrite Hnth.
      apply IH with (visited := n :: visited).
      * simpl. lia.
      * eapply inv_step; eauto.
      * now apply Hex.
Qed.

Theorem accepted_tables_terminate : forall t n choices,
  table_ok t = true -> is_some (alookup n t) = true ->
  exists leaf, resolve (S (length t)) t n choices = Leaf leaf /\ alookup leaf t = Some KPlain.
Proof.
  intros t n choices Hok Hsome.
  apply resolve_inv with (visited := []); auto.
  split; [constructor|split]; intros v [].
Qed.

(* ---------- converse direction ---------- *)

Theorem self_member_rejected : forall t n ms,
  alookup n t = Some (KLb ms) -> In n ms -> In (n, KLb ms) t -> table_ok t = false.
Proof.
  intros t n ms Hl Hn Hin.
  destruct (table_ok t) eqn:Hok; [|reflexivity].
  destruct (lb_verify_parts _ _ _ (table_ok_lb _ _ _ Hok Hl)) as [_ [_ Hno]].
  destruct t as [|e r]; [destruct Hin|].
  change (length (e :: r)) with (S (length r)) in Hno.
  rewrite reachb_one in Hno; [discriminate|].
  unfold members_of. now rewrite Hl.
Qed.

Theorem cycle_can_exhaust_any_fuel : forall fuel,
  exists t n choices,
    names_unique t = true /\ is_some (alookup n t) = true /\ resolve fuel t n choices = OutOfFuel.
Proof.
  intro fuel. exists [(0%N, KLb [0%N])], 0%N, [].
  split; [reflexivity|split; [reflexivity|]].
  induction fuel as [|f IH]; [reflexivity|exact IH].
Qed.

Print Assumptions accepted_tables_terminate.
Print Assumptions self_member_rejected.
Print Assumptions cycle_can_exhaust_any_fuel.
