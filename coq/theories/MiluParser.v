(* Model of milu/src/parser.rs: a PEG interpreter mirroring the nom combinators (ordered alt,
   many0 with backtracking on recoverable errors, cut, preceded(blank, _)), driven by the operator
   ladder that the translator extracts from the op_rule! invocations.  Template strings are not
   modelled (the runner reports sources containing a backtick as opaque). *)
From RP Require Import Base Target MiluSyntax.
From Coq Require Import ZArith String.

(* nom results: recoverable Error, unrecoverable Failure / Incomplete, and a Rust panic
   (parse1 / parse2 `_ => panic!('not implemented')`) *)
Inductive pres (A : Type) : Type :=
| POk (a : A) (rest : bytes)
| PErr
| PFail
| PPanic.
Arguments POk {A} a rest.
Arguments PErr {A}.
Arguments PFail {A}.
Arguments PPanic {A}.

(* ---- characters ----------------------------------------------------------------------- *)

Definition is_space (b : N) : bool := (b =? 32) || (b =? 9) || (b =? 10) || (b =? 13).
Definition is_alpha (b : N) : bool := in_range 65 90 b || in_range 97 122 b.
Definition is_dec (b : N) : bool := in_range 48 57 b.
Definition is_alnum (b : N) : bool := is_alpha b || is_dec b.
Definition is_oct (b : N) : bool := in_range 48 55 b.
Definition is_hex (b : N) : bool := is_dec b || in_range 65 70 b || in_range 97 102 b.
Definition is_bin (b : N) : bool := (b =? 48) || (b =? 49).
Definition lower_b (b : N) : N := if in_range 65 90 b then b + 32 else b.

Fixpoint tag (t i : bytes) : option bytes :=
  match t, i with
  | [], _ => Some i
  | a :: t', b :: i' => if a =? b then tag t' i' else None
  | _ :: _, [] => None
  end.
Fixpoint tag_nc (t i : bytes) : option bytes :=
  match t, i with
  | [], _ => Some i
  | a :: t', b :: i' => if lower_b a =? lower_b b then tag_nc t' i' else None
  | _ :: _, [] => None
  end.

(* a keyword ends where an identifier could not go on:
   terminated(tag(k), not(peek(satisfy(is_ascii_alphanumeric || '_')))) *)
Definition is_idc (b : N) : bool := is_alnum b || (b =? 95).
Definition kw (k i : bytes) : option bytes :=
  match tag k i with
  | Some r => match r with b :: _ => if is_idc b then None else Some r | [] => Some r end
  | None => None
  end.

Fixpoint span (p : N -> bool) (i : bytes) : bytes * bytes :=
  match i with
  | b :: r => if p b then let '(a, rest) := span p r in (b :: a, rest) else ([], i)
  | [] => ([], [])
  end.

(* ---- blank: whitespace, # comments, / * * / comments ------------------------------------ *)

Fixpoint find_close (i : bytes) : option bytes :=      (* take_until('* /') then tag('* /') *)
  match i with
  | 42 :: 47 :: r => Some r
  | _ :: r => find_close r
  | [] => None
  end.

Fixpoint skip_blank_fuel (fuel : nat) (i : bytes) : bytes :=
  match fuel with
  | O => i
  | S f =>
    match i with
    | b :: r =>
      if is_space b then skip_blank_fuel f (snd (span is_space r))
      else if b =? 35 then                                   (* '#' up to the end of the line *)
        skip_blank_fuel f (snd (span (fun x => negb ((x =? 10) || (x =? 13))) r))
      else if (b =? 47) && (match r with 42 :: _ => true | _ => false end) then
        match find_close (tl r) with
        | Some rest => skip_blank_fuel f rest
        | None => i
        end
      else i
    | [] => []
    end
  end.
Definition skip_blank (i : bytes) : bytes := skip_blank_fuel (S (List.length i)) i.

(* ---- literals ------------------------------------------------------------------------- *)

Definition p_identifier (i0 : bytes) : pres expr :=
  let i := skip_blank i0 in
  match i with
  | b :: r => if is_alpha b || (b =? 95)
              then let '(a, rest) := span (fun x => is_alnum x || (x =? 95)) r in POk (EId (b :: a)) rest
              else PErr
  | [] => PErr
  end.

Definition digit_val (b : N) : N :=
  if is_dec b then b - 48 else if in_range 65 70 b then b - 55 else b - 87.

Fixpoint radix_val (radix : N) (s : bytes) (acc : N) : N :=
  match s with [] => acc | b :: r => radix_val radix r (acc * radix + digit_val b) end.

Definition I64_MAX : N := 9223372036854775807.

(* recognize(many1(terminated(digits, many0('_')))) then from_str_radix *)
Definition p_radix (radix : N) (isd : N -> bool) (i : bytes) : pres expr :=
  match i with
  | b :: _ =>
    if isd b then
      let '(text, rest) := span (fun x => isd x || (x =? 95)) i in
      if existsb (N.eqb 95) text then PErr
      else let v := radix_val radix text 0 in
           if v <=? I64_MAX then POk (EInt (Z.of_N v)) rest else PErr
    else PErr
  | [] => PErr
  end.

Definition p_integer (i0 : bytes) : pres expr :=
  let i := skip_blank i0 in
  let try_prefixed (c : N) (radix : N) (isd : N -> bool) : pres expr :=
    match i with
    | 48 :: x :: r => if lower_b x =? c then p_radix radix isd r else PErr
    | _ => PErr
    end in
  match try_prefixed 98 2 is_bin with
  | POk e r => POk e r
  | _ =>
    match try_prefixed 111 8 is_oct with
    | POk e r => POk e r
    | _ =>
      match try_prefixed 120 16 is_hex with
      | POk e r => POk e r
      | _ => p_radix 10 is_dec i
      end
    end
  end.

Definition p_boolean (i0 : bytes) : pres expr :=
  let i := skip_blank i0 in
  match tag [116; 114; 117; 101] i with
  | Some r => POk (EBool true) r
  | None => match tag [102; 97; 108; 115; 101] i with
            | Some r => POk (EBool false) r
            | None => PErr
            end
  end.

(* char::from_u32 + UTF-8 encoding *)
Definition utf8_encode (c : N) : option bytes :=
  if c <? 128 then Some [c]
  else if c <? 2048 then Some [192 + c / 64; 128 + c mod 64]
  else if c <? 65536 then
    if (55296 <=? c) && (c <=? 57343) then None
    else Some [224 + c / 4096; 128 + (c / 64) mod 64; 128 + c mod 64]
  else if c <? 1114112 then Some [240 + c / 262144; 128 + (c / 4096) mod 64; 128 + (c / 64) mod 64; 128 + c mod 64]
  else None.

(* string body after the opening quote; streaming parsers: running out of input is Incomplete *)
Fixpoint p_string_body (fuel : nat) (i acc : bytes) : pres expr :=
  match fuel with
  | O => PFail
  | S f =>
    match i with
    | [] => PFail
    | 34 :: r => POk (EStr (rev acc)) r
    | 92 :: r =>                                           (* backslash *)
      match r with
      | [] => PFail
      | c :: r' =>
        if c =? 117 then                                   (* \u{X..} *)
          match r' with
          | [] => PFail
          | 123 :: r2 =>
            let '(hx, r3) := span is_hex r2 in
            match r3 with
            | [] => PFail
            | 125 :: r4 =>
              if (1 <=? len hx) && (len hx <=? 6) then
                match utf8_encode (radix_val 16 hx 0) with
                | Some bs => p_string_body f r4 (rev bs ++ acc)
                | None => PErr
                end
              else PErr
            | _ => PErr
            end
          | _ => PErr
          end
        else if c =? 110 then p_string_body f r' (10 :: acc)
        else if c =? 114 then p_string_body f r' (13 :: acc)
        else if c =? 116 then p_string_body f r' (9 :: acc)
        else if c =? 98 then p_string_body f r' (8 :: acc)
        else if c =? 102 then p_string_body f r' (12 :: acc)
        else if c =? 92 then p_string_body f r' (92 :: acc)
        else if c =? 47 then p_string_body f r' (47 :: acc)
        else if c =? 34 then p_string_body f r' (34 :: acc)
        else if is_space c then
          match snd (span is_space r') with
          | [] => PFail                                    (* streaming multispace1 needs a non-space *)
          | rest => p_string_body f rest acc
          end
        else PErr
      end
    | b :: r => p_string_body f r (b :: acc)
    end
  end.

Definition p_string (i0 : bytes) : pres expr :=
  match skip_blank i0 with
  | [] => PFail                                            (* streaming char(''') on empty input *)
  | 34 :: r => p_string_body (S (List.length r)) r []
  | _ => PErr
  end.

(* ---- the expression grammar ----------------------------------------------------------- *)

Section Grammar.
Variable levels : list level.                   (* loosest ... tightest is the order of use: see lv_next *)
Variable parse2_table : list (string * string).
Variable parse1_table : list (string * string).
Variable unary_tags : list string.
Variable top_rule : string.                     (* last alternative of op_0 *)
Variable cond_rule : string.                    (* condition of ?: *)

Definition lower_str (s : bytes) : bytes := map lower_b s.

Fixpoint match_tags (tags : list (string * bool)) (i : bytes) : option (bytes * bytes) :=
  match tags with
  | [] => None
  | (t, nc) :: rest =>
      let tb := bytes_of_string t in
      match (if nc then tag_nc tb i else tag tb i) with
      | Some r => Some (firstn (List.length tb) i, r)
      | None => match_tags rest i
      end
  end.

Definition find_level (name : string) : option level :=
  find (fun l => String.eqb (lv_name l) name) levels.

Definition lookup2 (op : bytes) : option string := assoc_str (string_of_bytes (lower_str op)) parse2_table.
Definition lookup1 (op : bytes) : option string := assoc_str (string_of_bytes (lower_str op)) parse1_table.

Definition ws_char (c : N) (i : bytes) : option bytes :=
  match skip_blank i with b :: r => if b =? c then Some r else None | [] => None end.

Definition KW_IF := [105; 102].
Definition KW_THEN := [116; 104; 101; 110].
Definition KW_ELSE := [101; 108; 115; 101].
Definition KW_LET := [108; 101; 116].
Definition KW_IN := [105; 110].

(* all functions decrease `fuel`; rule names select the binary level *)
Fixpoint p_op0 (fuel : nat) (i0 : bytes) {struct fuel} : pres expr :=
  match fuel with
  | O => PFail
  | S f =>
    let i := skip_blank i0 in
    match p_if f i with
    | PErr =>
      match p_let f i with
      | PErr => p_rule f top_rule i
      | r => r
      end
    | r => r
    end
  end

with p_if (fuel : nat) (i0 : bytes) {struct fuel} : pres expr :=
  match fuel with
  | O => PFail
  | S f =>
    let i := skip_blank i0 in
    let ternary (_ : unit) :=
      match p_rule f cond_rule i with
      | POk c r1 =>
        match ws_char 63 r1 with
        | None => PErr
        | Some r2 =>
          match p_op0 f r2 with
          | POk y r3 =>
            match ws_char 58 r3 with
            | None => PErr
            | Some r4 =>
              match p_op0 f r4 with
              | POk n r5 => POk (op3 "If"%string c y n) r5
              | PErr => PErr | PFail => PFail | PPanic => PPanic
              end
            end
          | PErr => PErr | PFail => PFail | PPanic => PPanic
          end
        end
      | PErr => PErr | PFail => PFail | PPanic => PPanic
      end in
    match kw KW_IF i with
    | None => ternary tt
    | Some r0 =>
      match p_op0 f r0 with
      | POk c r1 =>
        match kw KW_THEN (skip_blank r1) with
        | None => ternary tt
        | Some r2 =>
          match p_op0 f r2 with
          | POk y r3 =>
            match kw KW_ELSE (skip_blank r3) with
            | None => ternary tt
            | Some r4 =>
              match p_op0 f r4 with
              | POk n r5 => POk (op3 "If"%string c y n) r5
              | PErr => ternary tt | PFail => PFail | PPanic => PPanic
              end
            end
          | PErr => ternary tt | PFail => PFail | PPanic => PPanic
          end
        end
      | PErr => ternary tt | PFail => PFail | PPanic => PPanic
      end
    end
  end

with p_let (fuel : nat) (i0 : bytes) {struct fuel} : pres expr :=
  match fuel with
  | O => PFail
  | S f =>
    let i := skip_blank i0 in
    match kw KW_LET i with
    | None => PErr
    | Some r0 =>
      match p_assigns f r0 with
      | POk vars r1 =>
        let r2 := match ws_char 59 r1 with Some r => r | None => r1 end in
        match kw KW_IN (skip_blank r2) with
        | None => PErr
        | Some r3 =>
          match p_op0 f r3 with
          | POk e r4 => POk (op2 "Scope"%string (EArr vars) e) r4
          | PErr => PErr | PFail => PFail | PPanic => PPanic
          end
        end
      | PErr => PErr | PFail => PFail | PPanic => PPanic
      end
    end
  end

(* separated_list0(ws(';'), op_assign) *)
with p_assigns (fuel : nat) (i : bytes) {struct fuel} : pres (list expr) :=
  match fuel with
  | O => PFail
  | S f =>
    match p_assign f i with
    | PErr => POk [] i
    | PFail => PFail | PPanic => PPanic
    | POk a r1 => p_assigns_more f [a] r1
    end
  end

with p_assigns_more (fuel : nat) (acc : list expr) (i : bytes) {struct fuel} : pres (list expr) :=
  match fuel with
  | O => PFail
  | S f =>
    match ws_char 59 i with
    | None => POk (rev acc) i
    | Some r1 =>
      match p_assign f r1 with
      | PErr => POk (rev acc) i
      | PFail => PFail | PPanic => PPanic
      | POk a r2 => p_assigns_more f (a :: acc) r2
      end
    end
  end

with p_assign (fuel : nat) (i0 : bytes) {struct fuel} : pres expr :=
  match fuel with
  | O => PFail
  | S f =>
    match p_identifier (skip_blank i0) with
    | POk name r1 =>
      match ws_char 61 r1 with
      | None => PErr
      | Some r2 =>
        match p_op0 f r2 with
        | POk v r3 => POk (ETup [name; v]) r3
        | PErr => PErr | PFail => PFail | PPanic => PPanic
        end
      end
    | PErr => PErr | PFail => PFail | PPanic => PPanic
    end
  end

(* a named rule: a binary level of the ladder, or the unary level below the tightest one *)
with p_rule (fuel : nat) (name : string) (i0 : bytes) {struct fuel} : pres expr :=
  match fuel with
  | O => PFail
  | S f =>
    match find_level name with
    | None => p_unary f i0
    | Some lv =>
      let i := skip_blank i0 in
      match p_rule f (lv_next lv) i with
      | POk a r1 => p_level_loop f lv a r1
      | PErr => PErr | PFail => PFail | PPanic => PPanic
      end
    end
  end

(* many0(tuple(ws(tags), next)) folded to the left *)
with p_level_loop (fuel : nat) (lv : level) (acc : expr) (i : bytes) {struct fuel} : pres expr :=
  match fuel with
  | O => PFail
  | S f =>
    match match_tags (lv_tags lv) (skip_blank i) with
    | None => POk acc i
    | Some (op, r1) =>
      match p_rule f (lv_next lv) r1 with
      | POk b r2 =>
        match lookup2 op with
        | Some name => p_level_loop f lv (op2 name acc b) r2
        | None => PPanic
        end
      | PErr => POk acc i
      | PFail => PFail | PPanic => PPanic
      end
    end
  end

with p_unary (fuel : nat) (i0 : bytes) {struct fuel} : pres expr :=
  match fuel with
  | O => PFail
  | S f =>
    let i := skip_blank i0 in
    match match_tags (map (fun t => (t, false)) unary_tags) i with
    | Some (op, r1) =>
      match p_unary f r1 with
      | POk a r2 =>
        match lookup1 op with
        | Some name => POk (op1 name a) r2
        | None => PPanic
        end
      | PErr => p_postfix f i
      | PFail => PFail | PPanic => PPanic
      end
    | None => p_postfix f i
    end
  end

with p_postfix (fuel : nat) (i0 : bytes) {struct fuel} : pres expr :=
  match fuel with
  | O => PFail
  | S f =>
    match p_op_value f (skip_blank i0) with
    | POk a r1 => p_postfix_loop f a r1
    | PErr => PErr | PFail => PFail | PPanic => PPanic
    end
  end

with p_postfix_loop (fuel : nat) (acc : expr) (i : bytes) {struct fuel} : pres expr :=
  match fuel with
  | O => PFail
  | S f =>
    let j := skip_blank i in
    (* op_index *)
    let try_access (_ : unit) :=
      match j with
      | 46 :: r1 =>
        match p_identifier r1 with
        | POk id r2 => p_postfix_loop f (op2 "Access"%string acc id) r2
        | _ =>
          match p_integer r1 with
          | POk n r2 => p_postfix_loop f (op2 "Access"%string acc n) r2
          | _ => POk acc i
          end
        end
      | 40 :: r1 =>
        match p_list f r1 with
        | POk args r2 =>
          match ws_char 41 r2 with
          | Some r3 => p_postfix_loop f (ECall acc args) r3
          | None => POk acc i
          end
        | PErr => POk acc i
        | PFail => PFail | PPanic => PPanic
        end
      | _ => POk acc i
      end in
    match j with
    | 91 :: r1 =>
      match p_op0 f r1 with
      | POk ix r2 =>
        match ws_char 93 r2 with
        | Some r3 => p_postfix_loop f (op2 "Index"%string acc ix) r3
        | None => try_access tt
        end
      | PErr => try_access tt
      | PFail => PFail | PPanic => PPanic
      end
    | _ => try_access tt
    end
  end

(* separated_list0(ws(','), op_0) *)
with p_list (fuel : nat) (i : bytes) {struct fuel} : pres (list expr) :=
  match fuel with
  | O => PFail
  | S f =>
    match p_op0 f i with
    | PErr => POk [] i
    | PFail => PFail | PPanic => PPanic
    | POk a r1 => p_list_more f [a] r1
    end
  end

with p_list_more (fuel : nat) (acc : list expr) (i : bytes) {struct fuel} : pres (list expr) :=
  match fuel with
  | O => PFail
  | S f =>
    match ws_char 44 i with
    | None => POk (rev acc) i
    | Some r1 =>
      match p_op0 f r1 with
      | PErr => POk (rev acc) i
      | PFail => PFail | PPanic => PPanic
      | POk a r2 => p_list_more f (a :: acc) r2
      end
    end
  end

with p_op_value (fuel : nat) (i0 : bytes) {struct fuel} : pres expr :=
  match fuel with
  | O => PFail
  | S f =>
    let i := skip_blank i0 in
    let plain (_ : unit) := p_value f i in
    match i with
    | 40 :: r0 =>
      let second (_ : unit) :=
        match p_value f (skip_blank r0) with
        | POk v r1 => match ws_char 41 r1 with Some r2 => POk v r2 | None => plain tt end
        | PErr => plain tt
        | PFail => PFail | PPanic => PPanic
        end in
      match p_op0 f (skip_blank r0) with
      | POk e r1 => match ws_char 41 r1 with Some r2 => POk e r2 | None => second tt end
      | PErr => second tt
      | PFail => PFail | PPanic => PPanic
      end
    | _ => plain tt
    end
  end

with p_value (fuel : nat) (i0 : bytes) {struct fuel} : pres expr :=
  match fuel with
  | O => PFail
  | S f =>
    let i := skip_blank i0 in
    match p_string i with
    | PErr =>
      match i with
      | 96 :: _ => PFail                                   (* template strings: not modelled *)
      | _ =>
        match p_boolean i with
        | PErr =>
          match p_integer i with
          | PErr =>
            match p_identifier i with
            | PErr =>
              match p_array f i with
              | PErr => p_tuple f i
              | r => r
              end
            | r => r
            end
          | r => r
          end
        | r => r
        end
      end
    | r => r
    end
  end

(* '[' cut(terminated(separated_list0(ws(','), op_0), opt(ws(',')))) ws(']') *)
with p_array (fuel : nat) (i : bytes) {struct fuel} : pres expr :=
  match fuel with
  | O => PFail
  | S f =>
    match i with
    | 91 :: r0 =>
      match p_list f r0 with
      | POk l r1 =>
        let r2 := match ws_char 44 r1 with Some r => r | None => r1 end in
        match ws_char 93 r2 with
        | Some r3 => POk (EArr l) r3
        | None => PErr
        end
      | PErr => PFail
      | PFail => PFail | PPanic => PPanic
      end
    | _ => PErr
    end
  end

(* '(' pair(many0(terminated(op_0, ws(','))), opt(op_0)) ws(')') *)
with p_tuple (fuel : nat) (i : bytes) {struct fuel} : pres expr :=
  match fuel with
  | O => PFail
  | S f =>
    match i with
    | 40 :: r0 =>
      match p_tuple_items f [] r0 with
      | POk items r1 =>
        match p_op0 f r1 with
        | POk last r2 =>
          match items with
          | [] => PErr                                     (* '(x)' is grouping, not a tuple *)
          | _ => match ws_char 41 r2 with Some r3 => POk (ETup (rev (last :: items))) r3 | None => PErr end
          end
        | PErr => match ws_char 41 r1 with Some r3 => POk (ETup (rev items)) r3 | None => PErr end
        | PFail => PFail | PPanic => PPanic
        end
      | PErr => PErr | PFail => PFail | PPanic => PPanic
      end
    | _ => PErr
    end
  end

with p_tuple_items (fuel : nat) (acc : list expr) (i : bytes) {struct fuel} : pres (list expr) :=
  match fuel with
  | O => PFail
  | S f =>
    match p_op0 f i with
    | POk a r1 =>
      match ws_char 44 r1 with
      | Some r2 => p_tuple_items f (a :: acc) r2
      | None => POk acc i
      end
    | PErr => POk acc i
    | PFail => PFail | PPanic => PPanic
    end
  end.

(* root: all_consuming(terminated(op_0, delimited(multispace0, opt(tag(';;')), multispace0))) *)
Definition parse_with_fuel (fuel : nat) (src : bytes) : pres expr :=
  match p_op0 fuel src with
  | POk e r =>
    let r1 := snd (span is_space r) in
    let r2 := match tag [59; 59] r1 with Some x => x | None => r1 end in
    match snd (span is_space r2) with
    | [] => POk e []
    | _ => PErr
    end
  | other => other
  end.

Definition parse (src : bytes) : pres expr :=
  parse_with_fuel (64 * (List.length src + 2)) src.

End Grammar.
