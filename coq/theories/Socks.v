(* Model of src/common/socks.rs: SOCKS4/4a/5 request and response readers (as reader programs)
   and writers, PasswordAuth method selection and RFC 1929 sub-negotiation, SOCKS5 UDP frame
   header codec. *)
From RP Require Import Base Stream Target.

Definition E_VERSION : N := 1.
Definition E_NOAUTH : N := 2.
Definition E_ATYP : N := 3.
Definition E_METHOD : N := 4.
Definition E_V6_IN_V4 : N := 5.
Definition E_TOO_LONG : N := 6.
Definition E_NUL : N := 7.
Definition E_AUTH_FAILED : N := 8.
Definition E_SHORT : N := 9.
Definition E_UTF8 : N := 10.
Definition E_ADDR : N := 11.
Definition E_UNTERMINATED : N := 12.

Record socks_req := mk_sreq {
  sr_ver : N; sr_cmd : N; sr_target : target; sr_auth : option (bytes * bytes) }.
Record socks_resp := mk_sresp { sp_ver : N; sp_cmd : N; sp_target : target }.

Definition read_length_and_string : rp bytes :=
  n <~ read_u8 ;; bs <~ read_exact (N.to_nat n) ;; Ret (lossy bs).

(* read_until(0) then drop the terminator; an unterminated string (EOF first) is an error *)
Definition MAX_CSTRING : N := 1024.
Definition read_null_terminated_string : rp bytes :=
  ReadUntil 0 (fun bs found =>
    if MAX_CSTRING <? len bs then Fail E_TOO_LONG
    else if found then Ret (lossy (removelast bs)) else Fail E_UNTERMINATED).

Definition contains (x : N) (l : bytes) : bool := existsb (N.eqb x) l.

Definition select_method (required : bool) (methods : bytes) : option N :=
  if contains 0 methods && negb required then Some 0
  else if contains 2 methods then Some 2 else None.

Definition auth_v5_server (method : N) : rp (option (bytes * bytes)) :=
  if method =? 0 then Ret None
  else if method =? 2 then
    _ver <~ read_u8 ;; user <~ read_length_and_string ;; pass <~ read_length_and_string ;;
    Write [1; 0] (Ret (Some (user, pass)))
  else Fail E_METHOD.

Definition read_addr_v5 : rp target :=
  atyp <~ read_u8 ;;
  if atyp =? 1 then dst <~ read_u32 ;; port <~ read_u16 ;; Ret (TV4 dst port)
  else if atyp =? 3 then dom <~ read_length_and_string ;; port <~ read_u16 ;; Ret (TDomain dom port)
  else if atyp =? 4 then dst <~ read_exact 16 ;; port <~ read_u16 ;; Ret (TV6 dst port)
  else Fail E_ATYP.

Definition read_req_v5 (required : bool) : rp socks_req :=
  n <~ read_u8 ;; methods <~ read_exact (N.to_nat n) ;;
  match select_method required methods with
  | None => Write [5; 255] (Fail E_NOAUTH)
  | Some m =>
      Write [5; m]
        (auth <~ auth_v5_server m ;;
         ver <~ read_u8 ;; cmd <~ read_u8 ;; _rsv <~ read_u8 ;;
         tgt <~ read_addr_v5 ;;
         Ret (mk_sreq ver cmd tgt auth))
  end.

Definition read_req_v4 : rp socks_req :=
  cmd <~ read_u8 ;; port <~ read_u16 ;; dst <~ read_u32 ;;
  cid <~ read_null_terminated_string ;;
  tgt <~ (if dst <? 256 then dom <~ read_null_terminated_string ;; Ret (TDomain dom port)
          else Ret (TV4 dst port)) ;;
  Ret (mk_sreq 4 cmd tgt (Some (cid, []))).

Definition read_request (required : bool) : rp socks_req :=
  ver <~ read_u8 ;;
  if ver =? 4 then read_req_v4 else if ver =? 5 then read_req_v5 required else Fail E_VERSION.

(* ---- request writers (connector side, PasswordAuth client) ---------------------------- *)

Definition has_nul (s : bytes) : bool := contains 0 s.

Definition client_id (auth : option (bytes * bytes)) : bytes :=
  match auth with Some (u, _) => u | None => [] end.

Definition write_req_v4 (cmd : N) (t : target) (auth : option (bytes * bytes)) : outcome bytes :=
  let cid := client_id auth in
  match t with
  | TDomain dom port =>
      if has_nul cid || has_nul dom then Err E_NUL
      else Ok ([4; cmd] ++ u16_be port ++ [0; 0; 0; 1] ++ cid ++ [0] ++ dom ++ [0])
  | TV4 ip port =>
      if ip <? 256 then Err E_ADDR
      else if has_nul cid then Err E_NUL
      else Ok ([4; cmd] ++ u16_be port ++ u32_be ip ++ cid ++ [0])
  | TV6 _ _ => Err E_V6_IN_V4
  | TUnknown => Panic 20
  end.

Definition addr_v5 (t : target) : outcome bytes :=
  match t with
  | TDomain dom port =>
      if 255 <? len dom then Err E_TOO_LONG
      else Ok ([3; len dom] ++ dom ++ u16_be port)
  | TV4 ip port => Ok ([1] ++ u32_be ip ++ u16_be port)
  | TV6 ip port => Ok ([4] ++ ip ++ u16_be port)
  | TUnknown => Panic 21
  end.

Definition client_methods (auth : option (bytes * bytes)) : bytes :=
  match auth with Some _ => [0; 2] | None => [0] end.

Definition auth_v5_client (auth : option (bytes * bytes)) (method : N) : rp unit :=
  if method =? 0 then Ret tt
  else if method =? 2 then
    match auth with
    | None => Crash 22
    | Some (u, p) =>
        if (255 <? len u) || (255 <? len p) then Fail E_TOO_LONG else
        Write ([1; len u] ++ u ++ [len p] ++ p)
          (_ver <~ read_u8 ;; r <~ read_u8 ;; if r =? 0 then Ret tt else Fail E_AUTH_FAILED)
    end
  else Fail E_METHOD.

(* the client side of a SOCKS5 request as a program over the upstream's replies *)
Definition write_req_v5 (cmd : N) (t : target) (auth : option (bytes * bytes)) : rp unit :=
  let methods := client_methods auth in
  Write ([5; len methods] ++ methods)
    (_ver <~ read_u8 ;; pm <~ read_u8 ;;
     if negb (contains pm methods) then Fail E_METHOD else
     _ <~ auth_v5_client auth pm ;;
     match addr_v5 t with
     | Ok a => Write ([5; cmd; 0] ++ a) (Ret tt)
     | Err e => Fail e
     | Panic s => Crash s
     end).

(* ---- responses ------------------------------------------------------------------------ *)

Definition read_response : rp socks_resp :=
  ver <~ read_u8 ;;
  if ver =? 0 then
    cmd <~ read_u8 ;; port <~ read_u16 ;; dst <~ read_u32 ;; Ret (mk_sresp 4 cmd (TV4 dst port))
  else if ver =? 5 then
    cmd <~ read_u8 ;; _rsv <~ read_u8 ;; tgt <~ read_addr_v5 ;; Ret (mk_sresp 5 cmd tgt)
  else Fail E_VERSION.

Definition write_response (r : socks_resp) : outcome bytes :=
  if sp_ver r =? 4 then
    let code := if sp_cmd r =? 0 then 90 else 91 in
    match sp_target r with
    | TDomain _ port => Ok ([0; code] ++ u16_be port ++ [0; 0; 0; 1])
    | TV4 ip port => Ok ([0; code] ++ u16_be port ++ u32_be ip)
    | TV6 _ _ => Err E_V6_IN_V4
    | TUnknown => Panic 23
    end
  else if sp_ver r =? 5 then
    match addr_v5 (sp_target r) with
    | Ok a => Ok ([5; sp_cmd r; 0] ++ a)
    | Err e => Err e
    | Panic s => Panic s
    end
  else Err E_VERSION.

(* ---- SOCKS5 UDP request header -------------------------------------------------------- *)

Definition decode_udp (b : bytes) : outcome (target * bytes) :=
  if len b <? 4 then Err E_SHORT else
  let atyp := nth 3 b 0 in
  let r := skipn 4 b in
  if atyp =? 1 then
    if len r <? 6 then Err E_SHORT else Ok (TV4 (get_u32 r) (get_u16 (skipn 4 r)), skipn 6 r)
  else if atyp =? 4 then
    if len r <? 18 then Err E_SHORT else Ok (TV6 (firstn 16 r) (get_u16 (skipn 16 r)), skipn 18 r)
  else if atyp =? 3 then
    match r with
    | [] => Err E_SHORT
    | l :: r' =>
        if len r' <? l + 2 then Err E_SHORT else
        let dom := firstn (N.to_nat l) r' in
        if utf8_valid dom then
          Ok (TDomain dom (get_u16 (skipn (N.to_nat l) r')), skipn (N.to_nat l + 2) r')
        else Err E_UTF8
    end
  else Err E_ATYP.

Definition encode_udp (t : option target) (body : bytes) : outcome bytes :=
  match t with
  | Some (TV4 ip port) => Ok ([5; 3; 0; 1] ++ u32_be ip ++ u16_be port ++ body)
  | Some (TV6 ip port) => Ok ([5; 3; 0; 4] ++ ip ++ u16_be port ++ body)
  | Some (TDomain dom port) =>
      if 255 <? len dom then Err E_TOO_LONG
      else Ok ([5; 3; 0; 3; len dom] ++ dom ++ u16_be port ++ body)
  | _ => Err E_ADDR
  end.
