(* Entry points of the executable model used by the correspondence check (extracted). *)
From RP Require Import Base Stream Target Socks Http Frames Frag MiluSyntax MiluParser MiluDoc MiluEval Dispatch MiluSound MiluWf MiluSoundLet Reload Lb Callbacks RtLeaf MiluRoundtrip MiluRoundtripWs Idle Config Registry Auth QuicDgram.
From RP.Gen Require Gen_ladder.

Definition HFUEL : nat := 4000.   (* header lines per HTTP head in generated cases are far fewer *)

Definition x_socks_req_read (required : bool) (cs : list bytes) := run_chunked (read_request required) ([], cs).
Definition x_socks_req_write5 (cmd : N) (t : target) (auth : option (bytes * bytes)) (cs : list bytes) :=
  run_chunked (write_req_v5 cmd t auth) ([], cs).
Definition x_socks_resp_read (cs : list bytes) := run_chunked read_response ([], cs).
Definition x_http_req_read (cs : list bytes) := run_chunked (read_http_request HFUEL) ([], cs).
Definition x_http_resp_read (cs : list bytes) := run_chunked (read_http_response HFUEL) ([], cs).

(* IPv6 text is not computed by the model: printing yields the marker, parsing of anything that
   starts with '[' is reported as opaque by the runner *)
Definition x_print_sockaddr (t : target) : bytes :=
  match t with TV4 ip p => print_v4_sockaddr ip p | _ => [255] end.
Definition x_print_target := print_target x_print_sockaddr.
Definition x_parse_target := parse_target parse_v4_sockaddr.
Definition x_write_connect := write_connect x_print_sockaddr.
Definition x_write_connect_udp := write_connect_udp x_print_sockaddr.
Definition x_connect_reply (udp : bool) (cs : list bytes) := run_chunked (connect_reply udp HFUEL) ([], cs).
Definition x_read_connect (cs : list bytes) := run_chunked (read_connect parse_v4_sockaddr HFUEL) ([], cs).

Definition x_sfr_all (cs : list bytes) := sfr_all (S (S (length (concat cs)))) [] cs.

(* the milu parser instantiated with the ladder extracted from the source *)
Definition x_top_rule : String.string := List.last Gen_ladder.op0_alternatives String.EmptyString.
Definition x_milu_parse (src : bytes) : pres expr :=
  parse Gen_ladder.levels Gen_ladder.parse2_table Gen_ladder.parse1_table Gen_ladder.unary_tags
        x_top_rule Gen_ladder.ternary_cond_rule src.

(* checker + evaluator as the proxy uses them for a rule filter (Filter::validate / evaluate) *)
Definition EVAL_FUEL (e : expr) : nat := 4000.
Definition x_type_of regex cidr (rq : request) (e : expr) : outcome ty :=
  type_of regex cidr rq (EVAL_FUEL e) [] e.
Definition x_real_type_of regex cidr (rq : request) (e : expr) : outcome ty :=
  real_type_of regex cidr rq (EVAL_FUEL e) [] e.
Definition x_real_value_of regex cidr (rq : request) (e : expr) : outcome value :=
  real_value_of regex cidr rq (EVAL_FUEL e) [] e.
Definition x_cidr_contains := cidr_contains.
Definition x_cidr_net_ok := cidr_net_ok.

Definition x_dispatch regex cidr := dispatch x_milu_parse regex cidr 4000.

Definition x_wf_lfb := wf_lfb.

Definition x_rrun regex cidr rq0 conns := Reload.rrun x_milu_parse regex cidr 4000 rq0 conns (mk_rstate [] []).
Definition x_member_at := @member_at bytes.

Definition x_client_bytes (p : N) (tgt : target) (msg : bytes) (k : N) : bytes :=
  client_bytes (match p with 0 => PHttp | 5 => PSocks5 | _ => PSocks4 end) tgt msg k.

(* the printer and the denotation of the round-trip theorem (C09) *)
Definition x_rt_print := m_print.
Definition x_rt_denote := m_denote.
Definition x_rt_num := TNum.

(* idle check with last_read placed delta ms from `now` (C13); sign = true: in the past *)
Definition x_idle_now : N := 1000000000000.
Definition x_idle_check (period : N) (c_past : bool) (dc : N) (s_past : bool) (ds : N) : bool * bool * bool :=
  let lc := if c_past then x_idle_now - dc else x_idle_now + dc in
  let ls := if s_past then x_idle_now - ds else x_idle_now + ds in
  (is_timeout period lc x_idle_now, is_timeout period ls x_idle_now, idle_close period lc ls x_idle_now).
Definition x_tcp_period := tcp_period.
Definition x_udp_period := udp_period.

(* connector tables (C18) *)
Definition x_table_ok := table_ok.
Definition x_resolve (t : ctable) (n : N) (choices : list nat) := resolve (S (List.length t)) t n choices.

(* connection accounting (C16) *)
Definition x_state_log := state_log.
Definition x_lifecycle_ok := lifecycle_ok.

(* authentication (C07) *)
Definition x_select_method := select_method.
Definition x_auth_check (required : bool) (users : list (bytes * bytes)) (k : option (bytes * bytes)) : bool :=
  fst (check (mk_auth required users false 0) (fun _ _ => false) [] 0 k).

(* the let fragment of the soundness theorem (C08) *)
Definition x_wf_slb := wf_slb.

(* the filler printer of C09_parse_print_roundtrip_any_filler: the k-th gap gets the k-th filler of the list *)
Definition x_rt_print_ws (fs : list bytes) (t : tree) : bytes := m_print_ws (fun k => nth k fs [32]%N) t.

(* the QUIC datagram hop (C10): the writes with the fragment ids the case gives them, the wire a schedule induces, and what
   the peer's single reassembly table yields per datagram *)
Definition x_dgram_hop (ovf : bool) (mtu : N) (ids : list N) (ws : list wr) (sched : list (nat * nat))
  : outcome (list (outcome (option Frames.frame))) :=
  sent <- send_all ovf mtu ids ws ;;
  Ok (recv_wire ovf 3600000 0 fs_empty (wire_of sent sched)).
Definition x_ids_of := ids_of.
Definition x_drun := drun.
