(* Model of src/common/fragment.rs: MakeFragments, Fragments::reassemble, ReassembleQueue,
   Fragments::timer.  Definitions only; proofs are in FragProofs.v.

   Arithmetic: `ovf = true` is a build with overflow checks (dev profile), `ovf = false`
   the release profile (wrapping).  Every Rust operation that can panic has a Panic outcome:
     site 1  shift amount >= 128 on the u128 bitmap (overflow checks only)
     site 2  fragments[this] out of range in ReassembleQueue::new
     site 3  fragments[this] out of range in ReassembleQueue::add_fragment
     site 4  fragments[0] on an empty vector in ReassembleQueue::assemble
     site 5  assert!(mtu > 4) in MakeFragments::new
     site 6  next_id += 1 on u16 65535 (overflow checks only)
     site 7  self.next += 1 on u8 255 (overflow checks only)
     site 8  split_to(4) on a buffer shorter than 4 *)
From RP Require Import Base.

Section Frag.
Variable T : Type.
Variable from_buffer : bytes -> option T.
Variable ovf : bool.

Definition ones128 : N := N.ones 128.
Definition mask128 (x : N) : N := N.land x ones128.

Definition shl128 (x n : N) : outcome N :=
  if 128 <=? n then
    (if ovf then Panic 1 else Ok (mask128 (N.shiftl x (n mod 128))))
  else Ok (mask128 (N.shiftl x n)).

Record rq := mk_rq { rq_bitmap : N; rq_frags : list bytes }.

Definition rq_new (total seq : N) (buf : bytes) : outcome rq :=
  b1 <- shl128 ones128 total ;;
  b2 <- shl128 1 seq ;;
  let frs := repeat ([] : bytes) (N.to_nat total) in
  if seq <? total then Ok (mk_rq (N.lor b1 b2) (set_nth frs (N.to_nat seq) buf))
  else Panic 2.

Definition rq_add (q : rq) (seq : N) (buf : bytes) : outcome (rq * bool) :=
  bit <- shl128 1 seq ;;
  if N.land (rq_bitmap q) bit =? 0 then
    let bm := N.lor (rq_bitmap q) bit in
    if seq <? len (rq_frags q) then
      Ok (mk_rq bm (set_nth (rq_frags q) (N.to_nat seq) buf), bm =? ones128)
    else Panic 3
  else Ok (q, false).

Definition rq_assemble (q : rq) : outcome bytes :=
  match rq_frags q with
  | [] => Panic 4
  | _ => Ok (concat (rq_frags q))
  end.

Record fstate := mk_fs { fs_queue : list (N * rq); fs_timer : list (N * N) }.
Definition fs_empty : fstate := mk_fs [] [].

(* reassemble at logical time `now` with entry lifetime `timeout` *)
Definition reassemble (now timeout : N) (st : fstate) (buf : bytes)
  : fstate * outcome (option T) :=
  if len buf <? 4 then (st, Ok None) else
  let id := get_u16 buf in
  let total := nth 2 buf 0 in
  let seq := nth 3 buf 0 in
  let body := skipn 4 buf in
  if (total =? 0) || (127 <? total) || (total <=? seq) then (st, Ok None) else
  if (total =? 1) && (seq =? 0) then (st, Ok (from_buffer body)) else
  match alookup id (fs_queue st) with
  | Some q =>
      if negb (N.of_nat (length (rq_frags q)) =? total) then (st, Ok None) else
      match rq_add q seq body with
      | Ok (q', true) =>
          match rq_assemble q' with
          | Ok b => (mk_fs (aremove id (fs_queue st)) (fs_timer st), Ok (from_buffer b))
          | Err e => (st, Err e)
          | Panic s => (st, Panic s)
          end
      | Ok (q', false) => (mk_fs (ainsert id q' (fs_queue st)) (fs_timer st), Ok None)
      | Err e => (st, Err e)
      | Panic s => (st, Panic s)
      end
  | None =>
      match rq_new total seq body with
      | Ok q => (mk_fs (ainsert id q (fs_queue st)) (fs_timer st ++ [(id, now + timeout)]),
                 Ok None)
      | Err e => (st, Err e)
      | Panic s => (st, Panic s)
      end
  end.

(* Fragments::timer: drop the queue entries of the expired prefix of the deadline deque *)
Fixpoint timer_go (now : N) (queue : list (N * rq)) (tm : list (N * N)) : fstate :=
  match tm with
  | (id, dl) :: rest =>
      if dl <? now then timer_go now (aremove id queue) rest else mk_fs queue tm
  | [] => mk_fs queue []
  end.
Definition timer (now : N) (st : fstate) : fstate := timer_go now (fs_queue st) (fs_timer st).

End Frag.

(* --- sender side ----------------------------------------------------------------------- *)

Definition div_ceil (a b : N) : N := if (0 <? a mod b) && (0 <? b) then a / b + 1 else a / b.

(* split into pieces of `size` (> 0) bytes; fuel = length suffices *)
Fixpoint chunks_fuel (fuel : nat) (size : nat) (b : bytes) : list bytes :=
  match fuel with
  | O => []
  | S f => match b with
           | [] => []
           | _ => firstn size b :: chunks_fuel f size (skipn size b)
           end
  end.
Definition chunks (size : nat) (b : bytes) : list bytes := chunks_fuel (length b) size b.

Definition frag_header (id total seq : N) : bytes := u16_be id ++ [total; seq].

Fixpoint number_frags (id total : N) (next : N) (cs : list bytes) : list bytes :=
  match cs with
  | [] => []
  | c :: rest => (frag_header id total (next mod 256) ++ c) :: number_frags id total (next + 1) rest
  end.

(* returns (new next_id, fragments) *)
Definition make_fragments (ovf : bool) (mtu next_id : N) (buf : bytes) : outcome (N * list bytes) :=
  if negb (4 <? mtu) then Panic 5 else
  if ovf && (next_id =? 65535) then Panic 6 else
  let size := mtu - 4 in
  let total := (div_ceil (len buf) size) mod 256 in
  let cs := chunks (N.to_nat size) buf in
  if ovf && (256 <=? len cs) then Panic 7 else
  Ok ((next_id + 1) mod 65536, number_frags next_id total 0 cs).

(* --- the op interpreter used by the correspondence check ------------------------------- *)

Inductive fop := FRecv (dg : bytes) | FTimer.

Section Run.
Variable T : Type.
Variable from_buffer : bytes -> option T.
Variable ovf : bool.

(* logical clock: one tick per op *)
Fixpoint frag_run (timeout now : N) (st : fstate) (ops : list fop)
  : list (option (outcome (option T))) :=
  match ops with
  | [] => []
  | FRecv dg :: rest =>
      let '(st', o) := reassemble T from_buffer ovf now timeout st dg in
      Some o :: (match o with Panic _ => [] | _ => frag_run timeout (now + 1) st' rest end)
  | FTimer :: rest => None :: frag_run timeout (now + 1) (timer now st) rest
  end.
End Run.
