(* Model of src/connectors/loadbalance.rs: member selection.
   round_robin: ticket = idx.fetch_add(1), member = connectors[ticket % len]
   hash_by:     member = connectors[hash(key value) % len]   (hash: DefaultHasher, a parameter)
   random:      member = connectors[choice]                  (choice < len: thread_rng, a parameter)
   connect:     record the member's name on the context, then delegate to it *)
From RP Require Import Base.

Definition member_at {A} (members : list A) (ticket : nat) : option A :=
  match members with
  | [] => None                                      (* verify() rejects an empty list *)
  | _ => nth_error members (ticket mod List.length members)
  end.

(* the atomic counter: each fetch_add returns the current value and increments it, whatever
   task performs it; a schedule is the order in which tasks perform their fetch_add *)
Fixpoint tickets_of_schedule {Task} (sched : list Task) (counter : nat) : list (Task * nat) :=
  match sched with
  | [] => []
  | t :: rest => (t, counter) :: tickets_of_schedule rest (S counter)
  end.

Definition count_pos (n j : nat) (tickets : list nat) : nat :=
  List.length (filter (fun t => Nat.eqb (t mod n) j) tickets).
