From RP Require Import Base Stream StreamProofs Target Socks Http C03Proofs MiluSyntax MiluParser MiluDoc MiluEval Dispatch Callbacks.
From Coq Require Import String.

(* every trace of the dispatcher is one of the valid event sequences *)
Theorem dispatch_events_valid regex_match cidr_match_text fuel rq rs conns feature payload t :
  process_request regex_match cidr_match_text fuel rq rs conns feature payload = Ok t ->
  valid_events (t_events t).
Proof.
  unfold process_request. destruct (first_match _ _ _ rq rs) as [[r|]| |]; cbn [obind]; try discriminate.
  - destruct (bytes_eq (r_target r) DENY); [intros H; inversion H; constructor|].
    destruct (find_conn (r_target r) conns) as [c|]; [|discriminate].
    destruct (negb _); [intros H; inversion H; constructor|].
    destruct (c_ok c); intros H; inversion H; constructor.
  - intros H; inversion H; constructor.
Qed.

(* exactly one reply is written, the success reply iff the upstream was established, and in
   that case only after the connect *)
Theorem exactly_one_reply_k p k tgt msg evs :
  valid_events evs ->
  replies_k p k tgt msg evs false = [if established evs then success_reply p tgt else failure_reply p msg].
Proof. intros H; destruct p, k; inversion H; reflexivity. Qed.

Theorem exactly_one_reply p tgt msg evs :
  valid_events evs ->
  replies p tgt msg evs false = [if established evs then success_reply p tgt else failure_reply p msg].
Proof. apply exactly_one_reply_k. Qed.

Theorem reply_iff_established_k p k tgt msg evs :
  valid_events evs ->
  (In (success_reply p tgt) (replies_k p k tgt msg evs false) /\ success_reply p tgt <> failure_reply p msg
   -> established evs = true) /\
  (established evs = true -> replies_k p k tgt msg evs false = [success_reply p tgt]).
Proof.
  intros H. rewrite (exactly_one_reply_k p k tgt msg evs H). split.
  - intros [[Hin|[]] Hne]. destruct (established evs); [reflexivity|]. congruence.
  - intros ->. reflexivity.
Qed.

Theorem reply_iff_established p tgt msg evs :
  valid_events evs ->
  (In (success_reply p tgt) (replies p tgt msg evs false) /\ success_reply p tgt <> failure_reply p msg
   -> established evs = true) /\
  (established evs = true -> replies p tgt msg evs false = [success_reply p tgt]).
Proof. apply reply_iff_established_k. Qed.

(* success and failure replies are different messages, so "the success reply was sent" is observable *)
Theorem success_differs_from_failure p tgt msg : success_reply p tgt <> failure_reply p msg.
Proof.
  destruct p.
  - intros E. apply (f_equal (firstn 12)) in E. vm_compute in E. discriminate.
  - destruct tgt as [h q|ip q|ip q|]; intros E; apply (f_equal (fun l => nth 1 l 0)) in E;
      try (vm_compute in E; discriminate).
    unfold success_reply, socks_reply, write_response in E. cbn [sp_ver sp_cmd sp_target N.eqb Pos.eqb addr_v5] in E.
    destruct (255 <? len h); vm_compute in E; discriminate.
  - destruct tgt; intros E; apply (f_equal (fun l => nth 1 l 0)) in E; vm_compute in E; discriminate.
Qed.

Theorem success_only_after_connect evs :
  valid_events evs -> established evs = true ->
  exists c r, evs = EvConnect c :: EvOnConnect :: r.
Proof. intros H; inversion H; cbn; try discriminate; eauto. Qed.

(* ---- the failure replies are complete, well-formed messages ---------------------------- *)

(* SOCKS5: the 10 bytes parse back as a reply with a non-zero code and nothing is left over *)
Theorem socks5_failure_wellformed rest :
  run_whole read_response (failure_reply PSocks5 [] ++ rest) = (ROk (mk_sresp 5 1 (TV4 0 0)), rest, []).
Proof. reflexivity. Qed.

Theorem socks4_failure_wellformed rest :
  run_whole read_response (failure_reply PSocks4 [] ++ rest) = (ROk (mk_sresp 4 91 (TV4 0 0)), rest, []).
Proof. reflexivity. Qed.

Theorem socks_success_codes tgt b :
  write_response (mk_sresp 4 0 tgt) = Ok b -> nth 1 b 0 = 90.
Proof.
  unfold write_response. cbn [sp_ver sp_cmd sp_target N.eqb Pos.eqb].
  destruct tgt; intros H; inversion H; reflexivity.
Qed.

(* HTTP: the advertised Content-Length is the length of the body that follows the head *)
Definition http_failure_head (msg : bytes) : bytes :=
  write_http_response (mk_hresp HTTP11 503 (bstr "Service unavailable")
    (with_header (bstr "Content-Length") (dec (len msg)) (with_header (bstr "Content-Type") (bstr "text/plain") []))).

Theorem http_failure_is_head_plus_body msg :
  failure_reply PHttp msg = http_failure_head msg ++ msg.
Proof. reflexivity. Qed.

(* ---- the HTTP failure reply parses as a response whose Content-Length is the body length - *)
From RP Require Import HttpProofs PortText.

Lemma dec_fuel_digits : forall fuel n acc,
  forallb is_digit acc = true -> forallb is_digit (dec_digits_fuel fuel n acc) = true.
Proof.
  induction fuel as [|f IH]; intros n acc H; cbn [dec_digits_fuel]; [exact H|].
  assert (Hd : is_digit (48 + n mod 10) = true).
  { unfold is_digit, in_range. pose proof (N.mod_lt n 10 ltac:(lia)) as Hm.
    remember (n mod 10) as r. clear Heqr.
    apply andb_true_iff. split; apply N.leb_le; lia. }
  destruct (n / 10 =? 0); [cbn [forallb]; rewrite Hd, H; reflexivity|].
  apply IH. cbn [forallb]. rewrite Hd, H. reflexivity.
Qed.

Lemma dec_fuel_nonempty : forall f m acc, acc <> [] -> dec_digits_fuel f m acc <> [].
Proof.
  induction f as [|f0 IH]; intros m acc Ha; cbn [dec_digits_fuel]; [exact Ha|].
  destruct (m / 10 =? 0); [discriminate|]. apply IH. discriminate.
Qed.

Lemma dec_fuel_S_nonempty f m acc : dec_digits_fuel (S f) m acc <> [].
Proof.
  cbn [dec_digits_fuel]. destruct (m / 10 =? 0); [discriminate|]. apply dec_fuel_nonempty. discriminate.
Qed.

Lemma dec_digits n : forallb is_digit (dec n) = true /\ dec n <> [].
Proof.
  split; [apply dec_fuel_digits; reflexivity|]. exact (dec_fuel_S_nonempty 19 n []).
Qed.

Definition failure_resp (msg : bytes) : http_resp :=
  mk_hresp HTTP11 503 (bstr "Service unavailable")
    [(bstr "Content-Type", bstr "text/plain"); (bstr "Content-Length", dec (len msg))].

Lemma let_triple_id {A B} (X : A * B * bytes) :
  (let '(r, rest', w') := X in (r, rest', [] ++ w')) = X.
Proof. destruct X as [[r q] w]. reflexivity. Qed.

Lemma read_headers_step f acc k v l rest :
  contains 10 l = false -> utf8_valid (l ++ [10]) = true -> len l < MAX_LINE ->
  trim_end (l ++ [10]) <> [] -> split_once_colon_sp (trim_end (l ++ [10])) = Some (k, v) ->
  (MAX_HEADERS <=? len acc) = false ->
  run_whole (read_headers (S f) acc) (l ++ 10 :: rest) = run_whole (read_headers f ((k, v) :: acc)) rest.
Proof.
  intros Hn Hu Hl Hne Hs Hm. cbn [read_headers]. rewrite run_whole_bind, run_read_line by assumption.
  remember (trim_end (l ++ [10])) as t eqn:Et. destruct t as [|t0 ts]; [contradiction|].
  rewrite Hs. cbn beta iota. rewrite Hm. apply let_triple_id.
Qed.

Lemma read_headers_end f acc rest :
  run_whole (read_headers (S f) acc) ([13] ++ 10 :: rest) = (ROk (frev acc), rest, []).
Proof.
  cbn [read_headers]. rewrite run_whole_bind.
  rewrite (run_read_line [13] rest) by (reflexivity || (unfold MAX_LINE, len; cbn; lia)).
  change (trim_end ([13] ++ [10])) with (@nil N). cbn [run_whole app]. reflexivity.
Qed.

Lemma split_once_cons b r : b <> 58 ->
  split_once_colon_sp (b :: r) = match split_once_colon_sp r with Some (k, v) => Some (b :: k, v) | None => None end.
Proof.
  intros Hb. destruct b as [|p]; [reflexivity|].
  do 6 (try (destruct p as [p|p|]; try reflexivity)). congruence.
Qed.

Lemma split_once_key k v : contains 58 k = false -> split_once_colon_sp (k ++ 58 :: 32 :: v) = Some (k, v).
Proof.
  induction k as [|b k IH]; intros Hc; [reflexivity|].
  cbn [contains] in Hc. apply orb_false_iff in Hc. destruct Hc as [Hb Hk].
  cbn [app]. rewrite split_once_cons by (apply N.eqb_neq; rewrite N.eqb_sym; exact Hb). rewrite (IH Hk). reflexivity.
Qed.

Theorem http_failure_parses msg rest fuel :
  (3 <= fuel)%nat ->
  run_whole (read_http_response fuel) (failure_reply PHttp msg ++ rest) = (ROk (failure_resp msg), msg ++ rest, []).
Proof.
  intros Hf. destruct (dec_digits (len msg)) as [Hdig Hne].
  destruct (digits_facts _ Hdig) as (H58 & Hplain & Hascii).
  destruct (exists_last Hne) as (d0 & b & Hd).
  assert (Hb : b < 128).
  { rewrite Hd in Hascii. rewrite forallb_app in Hascii. apply andb_true_iff in Hascii.
    destruct Hascii as [_ Hx]. cbn [forallb] in Hx. rewrite andb_true_r in Hx. apply N.ltb_lt. exact Hx. }
  assert (Hbws : (b =? 32) || ((9 <=? b) && (b <=? 13)) = false).
  { apply (resource_last_plain d0). rewrite <- Hd. apply safe_plain_ascii. exact Hplain. }
  assert (Hlf : contains 10 (dec (len msg)) = false) by (apply safe_no_lf, safe_plain_ascii; exact Hplain).
  assert (Hlen : len (dec (len msg)) < 100).
  { (* at most 20 digits: fuel of dec *)
    unfold dec, len. 
    assert (G : forall f m acc, (List.length (dec_digits_fuel f m acc) <= f + List.length acc)%nat).
    { induction f as [|f0 IH]; intros m acc; cbn [dec_digits_fuel]; [lia|].
      destruct (m / 10 =? 0); [cbn [List.length]; lia|]. specialize (IH (m / 10) ((48 + m mod 10) :: acc)). cbn [List.length] in IH. lia. }
    specialize (G 20%nat (N.of_nat (List.length msg)) []). cbn [List.length] in G. lia. }
  unfold failure_reply, http_failure, write_http_response, failure_resp.
  cbn [hp_version hp_code hp_status hp_headers].
  assert (Hwh : with_header (bstr "Content-Length") (dec (len msg)) (with_header (bstr "Content-Type") (bstr "text/plain") [])
                = [(bstr "Content-Type", bstr "text/plain"); (bstr "Content-Length", dec (len msg))]).
  { unfold with_header at 1. destruct (dec (len msg)); [contradiction|reflexivity]. }
  rewrite Hwh. unfold write_headers. cbn [map List.concat concat fst snd].
  set (l1 := HTTP11 ++ [32] ++ dec 503 ++ [32] ++ bstr "Service unavailable" ++ [13]).
  set (l2 := bstr "Content-Type" ++ [58; 32] ++ bstr "text/plain" ++ [13]).
  set (l3 := bstr "Content-Length" ++ [58; 32] ++ dec (len msg) ++ [13]).
  assert (E : ((HTTP11 ++ [32] ++ dec 503 ++ [32] ++ bstr "Service unavailable" ++ CRLF ++
               ((bstr "Content-Type" ++ [58; 32] ++ bstr "text/plain" ++ CRLF) ++
                (bstr "Content-Length" ++ [58; 32] ++ dec (len msg) ++ CRLF) ++ []) ++ CRLF) ++ msg) ++ rest
              = l1 ++ 10 :: l2 ++ 10 :: l3 ++ 10 :: [13] ++ 10 :: msg ++ rest).
  { unfold l1, l2, l3, CRLF. rewrite <- !app_assoc. cbn [app]. rewrite <- ?app_assoc. reflexivity. }
  rewrite E. clear E.
  unfold read_http_response. rewrite run_whole_bind.
  rewrite (run_read_line l1) by (vm_compute; (reflexivity || (split; intros; discriminate)) ).
  assert (Ht1 : trim_end (l1 ++ [10]) = HTTP11 ++ [32] ++ dec 503 ++ [32] ++ bstr "Service unavailable")
    by (vm_compute; reflexivity).
  rewrite Ht1.
  change (splitn3 (HTTP11 ++ [32] ++ dec 503 ++ [32] ++ bstr "Service unavailable"))
    with [HTTP11; dec 503; bstr "Service unavailable"].
  cbn beta iota.
  change (starts_with HTTP_SLASH HTTP11) with true. cbn beta iota.
  change (parse_u16 (dec 503)) with (Some 503). cbn beta iota.
  rewrite run_whole_bind.
  destruct fuel as [|[|[|f]]]; try lia.
  rewrite (read_headers_step _ _ (bstr "Content-Type") (bstr "text/plain") l2)
    by (vm_compute; (reflexivity || discriminate)).
  assert (Hl3 : contains 10 l3 = false).
  { unfold l3. rewrite !contains_app, Hlf. reflexivity. }
  assert (Hu3 : utf8_valid (l3 ++ [10]) = true).
  { unfold l3. rewrite <- !app_assoc.
    apply utf8_app_valid; [reflexivity|]. apply utf8_app_valid; [reflexivity|].
    apply utf8_app_valid; [apply ascii_utf8; exact Hascii|]. reflexivity. }
  assert (Hll3 : len l3 < MAX_LINE).
  { unfold l3, len in *. rewrite !app_length. cbn [List.length]. unfold MAX_LINE.
    change (List.length (bstr "Content-Length")) with 14%nat. lia. }
  assert (Ht3 : trim_end (l3 ++ [10]) = bstr "Content-Length" ++ 58 :: 32 :: dec (len msg)).
  { unfold l3. rewrite Hd.
    replace ((bstr "Content-Length" ++ [58; 32] ++ (d0 ++ [b]) ++ [13]) ++ [10])
      with (((bstr "Content-Length" ++ [58; 32] ++ d0) ++ [b]) ++ CRLF)
      by (unfold CRLF; rewrite <- !app_assoc; reflexivity).
    rewrite trim_end_crlf by assumption. rewrite <- !app_assoc. reflexivity. }
  rewrite (read_headers_step _ _ (bstr "Content-Length") (dec (len msg)) l3);
    [ | assumption | assumption | assumption | rewrite Ht3; discriminate
      | rewrite Ht3; apply split_once_key; reflexivity | reflexivity ].
  rewrite read_headers_end. cbn [run_whole app frev rev_append]. reflexivity.
Qed.
