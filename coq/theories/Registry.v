(* Accounting of connections (property C16): the context registry of src/context.rs - create_context, Drop for
   Context, gc_thread - and the state log of one connection as driven by the listeners, process_request and
   copy_bidi (src/main.rs, src/copy.rs, src/listeners/*.rs). *)
From RP Require Import Base.
Local Open Scope nat_scope.

(* ---- the registry ---------------------------------------------------------------------- *)
(* alive: ids registered and not yet collected (oldest first); dropped: contexts that have ended and wait for the
   collector (gc_list, oldest first); history: collected, newest first, bounded; log: access-log lines, oldest first *)
Record rstate := mk_r { r_next : nat; r_alive : list nat; r_dropped : list nat; r_history : list nat; r_log : list nat }.

Definition r_init : rstate := mk_r 0 [] [] [] [].

Inductive rop := Create | DropCtx (id : nat) | Gc.

Definition mem (x : nat) (l : list nat) : bool := existsb (Nat.eqb x) l.

Definition rstep (size : nat) (s : rstate) (o : rop) : rstate :=
  match o with
  | Create => mk_r (S (r_next s)) (r_alive s ++ [r_next s]) (r_dropped s) (r_history s) (r_log s)
  | DropCtx id =>
      (* a context ends once: it must be registered and not already ended *)
      if mem id (r_alive s) && negb (mem id (r_dropped s))
      then mk_r (r_next s) (r_alive s) (r_dropped s ++ [id]) (r_history s) (r_log s)
      else s
  | Gc =>
      mk_r (r_next s)
           (filter (fun i => negb (mem i (r_dropped s))) (r_alive s))
           []
           (firstn size (rev (r_dropped s) ++ r_history s))      (* push_front one by one, then trim from the back *)
           (r_log s ++ r_dropped s)
  end.

Definition rrun (size : nat) (ops : list rop) : rstate := fold_left (rstep size) ops r_init.

(* what GET /api/live shows: registered contexts that still exist *)
Definition live_view (s : rstate) : list nat := filter (fun i => negb (mem i (r_dropped s))) (r_alive s).

(* ---- the state log of one connection ----------------------------------------------------- *)
Inductive cstate := ClientConnected | ClientRequested | ServerConnecting | Connected
                  | ServerShutdown | ClientShutdown | Terminated | ErrorOccured.

Definition cstate_eqb (a b : cstate) : bool :=
  match a, b with
  | ClientConnected, ClientConnected | ClientRequested, ClientRequested | ServerConnecting, ServerConnecting
  | Connected, Connected | ServerShutdown, ServerShutdown | ClientShutdown, ClientShutdown
  | Terminated, Terminated | ErrorOccured, ErrorOccured => true
  | _, _ => false
  end.

(* how a connection ends *)
Inductive outcome_class :=
| HandshakeFailed                 (* the listener could not read a request *)
| Refused                         (* denied by a rule, no rule, unsupported feature: on_error before connecting *)
| ConnectFailed                   (* the connector's connect returned an error *)
| Finished (client_first : bool)  (* both directions ended; which one ended first *)
| RelayFailed (c2s_done s2c_done : bool).   (* an I/O error or the idle timeout, after zero, one (or both) directions ended *)

(* create_context logs ClientConnected; enqueue logs ClientRequested; process_request logs ServerConnecting;
   on_connect logs Connected; copy_bidi logs ClientShutdown / ServerShutdown as each direction ends; then
   Terminated (set_state + on_finish) or ErrorOccured (on_error, with the error text) *)
Definition state_log (o : outcome_class) : list cstate :=
  match o with
  | HandshakeFailed => [ClientConnected; ErrorOccured]
  | Refused => [ClientConnected; ClientRequested; ErrorOccured]
  | ConnectFailed => [ClientConnected; ClientRequested; ServerConnecting; ErrorOccured]
  | Finished true => [ClientConnected; ClientRequested; ServerConnecting; Connected; ClientShutdown; ServerShutdown; Terminated]
  | Finished false => [ClientConnected; ClientRequested; ServerConnecting; Connected; ServerShutdown; ClientShutdown; Terminated]
  | RelayFailed c s =>
      [ClientConnected; ClientRequested; ServerConnecting; Connected] ++
      (if c then [ClientShutdown] else []) ++ (if s then [ServerShutdown] else []) ++ [ErrorOccured]
  end.

Definition is_terminal (s : cstate) : bool := match s with Terminated | ErrorOccured => true | _ => false end.

(* position of a state in the lifecycle; the two per-direction shutdowns share a level *)
Definition level (s : cstate) : nat :=
  match s with
  | ClientConnected => 0 | ClientRequested => 1 | ServerConnecting => 2 | Connected => 3
  | ServerShutdown | ClientShutdown => 4 | Terminated | ErrorOccured => 5
  end.

(* the log follows the lifecycle: starts with ClientConnected, never steps back, never repeats a state, Terminated
   only after both directions ended, and ends in exactly one terminal state *)
Fixpoint nondecreasing (l : list cstate) : bool :=
  match l with
  | a :: ((b :: _) as r) => (level a <=? level b) && nondecreasing r
  | _ => true
  end.
Fixpoint nodup_states (l : list cstate) : bool :=
  match l with
  | [] => true
  | a :: r => negb (existsb (cstate_eqb a) r) && nodup_states r
  end.
Definition lifecycle_ok (l : list cstate) : bool :=
  match l with ClientConnected :: _ => true | _ => false end &&
  nondecreasing l && nodup_states l &&
  (length (filter is_terminal l) =? 1) && is_terminal (last l ClientConnected) &&
  (negb (existsb (cstate_eqb Terminated) l) ||
   (existsb (cstate_eqb ClientShutdown) l && existsb (cstate_eqb ServerShutdown) l && existsb (cstate_eqb Connected) l)).

(* per-direction byte counters of a TCP tunnel: read-ahead handed over by drain_buffers plus what each relay
   loop forwarded *)
Definition counter (drained : nat) (relayed_chunks : list nat) : nat := drained + fold_left Nat.add relayed_chunks 0.
