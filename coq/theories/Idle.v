(* Idle timeout of a tunnel (property C13): ContextStatistics::is_timeout and the 1 s ticker of copy_bidi
   (src/context.rs, src/copy.rs), and the start-up block of src/main.rs that hands the configured value to
   the context registry.  Time is in milliseconds since the epoch (SystemTime), as in the code. *)
From RP Require Import Base.
From RP.Gen Require Gen_startup.

(* is_timeout: a zero period disables; strict comparison in milliseconds.  When the wall clock has stepped back
   behind last_read the elapsed time is 0 (saturating_sub); before fix: the u64 subtraction wrapped in the
   release profile.  Which of the two the source has is read by the translator. *)
Definition U64 : N := 2 ^ 64.
Definition elapsed (last_read now : N) : N :=
  if last_read <=? now then now - last_read
  else if Gen_startup.elapsed_saturates then 0 else U64 - (last_read - now).
Definition is_timeout (period_s last_read now : N) : bool :=
  if period_s =? 0 then false else period_s * 1000 <? elapsed last_read now.

(* copy_bidi's ticker branch: both directions idle *)
Definition idle_close (period_s last_client last_server now : N) : bool :=
  is_timeout period_s last_server now && is_timeout period_s last_client now.

(* the tunnel from its last activity on: ticks arrive at the given times; the tunnel is closed at the first
   tick whose check fires *)
Fixpoint closed_at (period_s last_client last_server : N) (ticks : list N) : option N :=
  match ticks with
  | [] => None
  | t :: r => if idle_close period_s last_client last_server t then Some t
              else closed_at period_s last_client last_server r
  end.

(* which period a new TCP context gets: ContextManager::default_timeout, set by the start-up block.  The
   translator reports whether that assignment reads the configured value (after `timeouts = cfg.timeouts`)
   or the built-in default. *)
Definition DEFAULT_PERIOD : N := 600.
Definition tcp_period (configured_idle : option N) : N :=
  match configured_idle with
  | Some v => if Gen_startup.default_timeout_reads_configured_value then v else DEFAULT_PERIOD
  | None => DEFAULT_PERIOD
  end.
Definition udp_period (configured_udp : option N) : N :=
  match configured_udp with Some v => v | None => DEFAULT_PERIOD end.

(* which period a UDP association gets, by the kind of listener that accepted it.  The socks, reverse and tproxy listeners set
   timeouts.udp themselves (the translator counts the three call sites); the http and quic listeners create their UDP
   associations in the shared CONNECT handshake (Proxy-Protocol: udp), which applies the period it is handed
   (fix 87730c1; both facts are read from the source). *)
Inductive lkind := LSocks | LReverse | LTproxy | LHttp | LQuic.
Definition udp_assoc_period (k : lkind) (configured_idle configured_udp : option N) : N :=
  match k with
  | LSocks | LReverse | LTproxy =>
      if Gen_startup.udp_sessions_take_the_udp_timeout =? 3 then udp_period configured_udp else tcp_period configured_idle
  | LHttp | LQuic =>
      if Gen_startup.connect_udp_sessions_take_the_udp_timeout then udp_period configured_udp else tcp_period configured_idle
  end.
