(* Configuration loading (property C18): the connector table, LoadBalanceConnector::verify (members exist, the
   load balancer is not - directly or through other load balancers - a member of itself) and what a request
   routed to a connector goes through: LoadBalanceConnector::connect hands it to a member it selects, until a
   connector that is not a load balancer is reached (src/connectors/mod.rs, src/connectors/loadbalance.rs).
   Connector names only matter up to equality: they are numbers here. *)
From RP Require Import Base.
Local Open Scope nat_scope.

Inductive ckind := KPlain | KLb (members : list N).
Definition ctable := list (N * ckind).

Definition members_of (t : ctable) (n : N) : list N :=
  match alookup n t with Some (KLb ms) => ms | _ => [] end.

(* b can be reached from a in at least one and at most k member steps *)
Fixpoint reachb (k : nat) (t : ctable) (a b : N) : bool :=
  match k with
  | O => false
  | S k' => existsb (fun m => (m =? b)%N || reachb k' t m b) (members_of t a)
  end.

Definition is_some {A} (o : option A) : bool := match o with Some _ => true | None => false end.

(* connectors::from_config: names are unique ("duplicate connector name") *)
Fixpoint names_unique (t : ctable) : bool :=
  match t with
  | [] => true
  | (n, _) :: r => negb (is_some (alookup n r)) && names_unique r
  end.

(* LoadBalanceConnector::verify *)
Definition lb_verify (t : ctable) (name : N) (ms : list N) : bool :=
  match ms with [] => false | _ => true end &&
  forallb (fun m => is_some (alookup m t)) ms &&
  negb (reachb (length t) t name name).

(* the start-up sequence accepts the connector table *)
Definition table_ok (t : ctable) : bool :=
  names_unique t &&
  forallb (fun e => match snd e with KLb ms => lb_verify t (fst e) ms | KPlain => true end) t.

(* a request handed to connector n: each load balancer on the way selects a member (round robin, random, hash:
   any index, taken from `choices`); fuel stands for the native stack *)
Inductive rres := Leaf (n : N) | Unknown | OutOfFuel.

Fixpoint resolve (fuel : nat) (t : ctable) (n : N) (choices : list nat) : rres :=
  match fuel with
  | O => OutOfFuel
  | S f =>
      match alookup n t with
      | None => Unknown
      | Some KPlain => Leaf n
      | Some (KLb ms) =>
          let c := match choices with c :: _ => c | [] => 0 end in
          match nth_error ms (c mod length ms) with
          | Some m => resolve f t m (tl choices)
          | None => Unknown           (* empty member list: excluded by verify *)
          end
      end
  end.
