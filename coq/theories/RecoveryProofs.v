From RP Require Import Base Recovery.
From RP.Gen Require Gen_quic.
From Coq Require Import Lia.

(* connectors that dial per request recover at once *)
Theorem stateless_recovers_immediately : stateless_request true = Served /\ stateless_request false = Failed.
Proof. split; reflexivity. Qed.

(* a live cached connection is used and kept *)
Theorem live_connection_served s c t now_up : cache s = Some c -> up_at c t = true ->
  qrequest s t now_up = (s, Served).
Proof. intros Hc Hu. unfold qrequest. rewrite Hc, Hu. reflexivity. Qed.

Lemma dead_not_up c d t : died c = Some d -> d <= t -> up_at c t = false.
Proof.
  intros Hd Ht. unfold up_at. rewrite Hd. destruct (born c <=? t); [|reflexivity]. cbn [andb].
  apply N.ltb_ge. exact Ht.
Qed.

(* a request can only hang while the transport has not yet noticed that the peer is gone: within IDLE seconds of
   the peer's death.  Connections are cached only when made: the peer was born no later than any later request. *)
Definition sane (s : qstate) (t : N) : Prop := forall c, cache s = Some c -> born c <= t.

Theorem hang_is_bounded s t now_up s' : sane s t -> qrequest s t now_up = (s', Hangs) ->
  exists c d, cache s = Some c /\ died c = Some d /\ d <= t /\ t < d + IDLE.
Proof.
  intros Hs. unfold qrequest. destruct (cache s) as [c|] eqn:Ec.
  - destruct (up_at c t) eqn:Eu; [discriminate|].
    destruct (conn_closed c t) eqn:Ecl; [discriminate|]. intros _.
    specialize (Hs c Ec). unfold conn_closed in Ecl. unfold up_at in Eu.
    assert (Hb : (born c <=? t) = true) by (apply N.leb_le; exact Hs). rewrite Hb in Eu. cbn [andb] in Eu.
    destruct (died c) as [d|] eqn:Ed; [|discriminate].
    exists c, d. repeat split; try reflexivity; try exact Ec; try exact Ed.
    + apply N.ltb_ge in Eu. exact Eu.
    + apply N.leb_gt in Ecl. exact Ecl.
  - destruct now_up; discriminate.
Qed.

(* once the transport has closed the dead connection, one request fails (and clears the cache) and the next request
   that finds the upstream up is served: a bounded number of attempts, a bounded time *)
Theorem quic_recovers_after_one_failure c d i2 t1 t2 up1 :
  died c = Some d -> d + IDLE <= t1 -> t1 <= t2 -> up_at i2 t2 = true ->
  let '(s1, v1) := qrequest (mk_q (Some c)) t1 up1 in
  let '(s2, v2) := qrequest s1 t2 (Some i2) in
  v1 = Failed /\ v2 = Served /\ cache s2 = Some i2.
Proof.
  intros Hd H1 H12 Hu.
  assert (Hn : up_at c t1 = false) by (apply (dead_not_up c d t1 Hd); lia).
  assert (Hc : conn_closed c t1 = true) by (unfold conn_closed; rewrite Hd; apply N.leb_le; exact H1).
  unfold qrequest. cbn [cache]. rewrite Hn, Hc. cbn [cache]. auto.
Qed.

(* with an empty cache the connector behaves like a stateless one *)
Theorem empty_cache_is_stateless t i : up_at i t = true ->
  qrequest (mk_q None) t (Some i) = (mk_q (Some i), Served) /\ qrequest (mk_q None) t None = (mk_q None, Failed).
Proof. intros _. split; reflexivity. Qed.

(* a failure never poisons the cache: after Failed the cache is empty *)
Theorem failed_leaves_cache_empty s t now_up s' : qrequest s t now_up = (s', Failed) -> cache s' = None.
Proof.
  unfold qrequest. destruct (cache s) as [c|].
  - destruct (up_at c t); [discriminate|]. destruct (conn_closed c t); [|discriminate]. intros H; inversion H; reflexivity.
  - destruct now_up; [discriminate|]. intros H; inversion H; reflexivity.
Qed.

(* tunnels to other upstreams are unaffected: each connector has its own state *)
Theorem connectors_independent (a b : qstate) t now_up :
  let '(a', _) := qrequest a t now_up in (a', b) = (a', b) /\ snd (a', b) = b.
Proof. destruct (qrequest a t now_up). split; reflexivity. Qed.

(* the transport parameters make detection possible: keep-alives are sent more often than the idle timeout *)
Theorem keepalive_below_idle : Gen_quic.client_keep_alive_s < Gen_quic.client_idle_timeout_s /\ IDLE = 30.
Proof. split; reflexivity. Qed.

Example recovery_example :
  let c := mk_inc 0 (Some 100) in let i2 := mk_inc 101 None in
  snd (qrequest (mk_q (Some c)) 110 (Some i2)) = Hangs /\
  snd (qrequest (mk_q (Some c)) 130 (Some i2)) = Failed /\
  snd (qrequest (mk_q None) 131 (Some i2)) = Served.
Proof. repeat split; reflexivity. Qed.
