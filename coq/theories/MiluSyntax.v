(* Abstract syntax of milu programs as the Rust parser builds them (milu/src/script.rs Value /
   Call), and the operator ladder data type filled in by the translator (Gen/Gen_ladder.v). *)
From RP Require Import Base.
From Coq Require Import ZArith String.

Inductive expr : Type :=
| EInt (z : Z)
| EBool (b : bool)
| EStr (s : bytes)
| EId (s : bytes)
| EArr (l : list expr)
| ETup (l : list expr)
| ENat (name : string)                 (* native function stub, e.g. "Plus" *)
| ECall (f : expr) (args : list expr).  (* Call { func, args } *)

Definition op1 (name : string) (a : expr) : expr := ECall (ENat name) [a].
Definition op2 (name : string) (a b : expr) : expr := ECall (ENat name) [a; b].
Definition op3 (name : string) (a b c : expr) : expr := ECall (ENat name) [a; b; c].

(* one `op_rule!` invocation: rule name, the next (tighter) rule, and the ordered list of
   operator tags with their case-insensitivity flag *)
Record level := mk_level { lv_name : string; lv_next : string; lv_tags : list (string * bool) }.

Fixpoint bytes_of_string (s : string) : bytes :=
  match s with
  | EmptyString => []
  | String c r => N.of_nat (Ascii.nat_of_ascii c) :: bytes_of_string r
  end.

Fixpoint string_of_bytes (b : bytes) : string :=
  match b with
  | [] => EmptyString
  | x :: r => String (Ascii.ascii_of_N x) (string_of_bytes r)
  end.

Fixpoint assoc_str {V} (k : string) (m : list (string * V)) : option V :=
  match m with
  | [] => None
  | (k', v) :: r => if String.eqb k k' then Some v else assoc_str k r
  end.
