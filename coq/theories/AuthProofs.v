From RP Require Import Base Auth.
From RP.Gen Require Gen_auth.
From Coq Require Import Lia.

(* when credentials are required, "no authentication" is never selected, whatever is offered in whatever order *)
Theorem required_never_selects_none ms : select_method true ms <> Some 0.
Proof. unfold select_method. rewrite andb_false_r. destruct (containsN 2 ms); discriminate. Qed.

Theorem selected_was_offered required ms m : select_method required ms = Some m -> containsN m ms = true.
Proof.
  unfold select_method. destruct (containsN 0 ms && negb required) eqn:E.
  - intros H; inversion H; subst. apply andb_true_iff in E. tauto.
  - destruct (containsN 2 ms) eqn:E2; [|discriminate]. intros H; inversion H; subst. exact E2.
Qed.

Lemma bytes_eqb_eq a : forall b, bytes_eqb a b = true <-> a = b.
Proof.
  induction a as [|x r IH]; intros [|y s]; cbn [bytes_eqb]; split; try discriminate; try reflexivity.
  - intros H. apply andb_true_iff in H. destruct H as [H1 H2]. apply N.eqb_eq in H1. apply IH in H2. congruence.
  - intros H. inversion H; subst. rewrite N.eqb_refl. cbn. apply IH. reflexivity.
Qed.
Lemma creds_eqb_eq a b : creds_eqb a b = true <-> a = b.
Proof.
  unfold creds_eqb. destruct a as [a1 a2], b as [b1 b2]. cbn [fst snd]. rewrite andb_true_iff, !bytes_eqb_eq.
  split; [intros [-> ->]; reflexivity|intros H; inversion H; auto].
Qed.

(* every cache entry is a verdict the command gave for exactly that user and password, not yet expired *)
Definition cache_ok (cfg : auth_cfg) (cmd : creds -> N -> bool) (c : cache) : Prop :=
  forall k v e, In (k, v, e) c -> exists t0, cmd k t0 = v /\ e = t0 + a_cache_timeout cfg.

Lemma cache_get_sound cfg cmd c k now v : cache_ok cfg cmd c -> cache_get c k now = Some v ->
  exists t0, cmd k t0 = v /\ now < t0 + a_cache_timeout cfg.
Proof.
  induction c as [|[[k' v'] e] r IH]; intros Hok; cbn [cache_get]; [discriminate|].
  destruct (creds_eqb k k' && (now <? e)) eqn:E.
  - intros H; inversion H; subst. apply andb_true_iff in E. destruct E as [E1 E2].
    apply creds_eqb_eq in E1. subst k'. apply N.ltb_lt in E2.
    destruct (Hok k v e (or_introl eq_refl)) as (t0 & H1 & H2). exists t0. split; [exact H1|lia].
  - apply IH. intros a b c0 Hin. apply (Hok a b c0). right. exact Hin.
Qed.

Lemma check_keeps_cache_ok cfg cmd c now k : cache_ok cfg cmd c -> cache_ok cfg cmd (snd (check cfg cmd c now k)).
Proof.
  intros Hok. unfold check. destruct (negb (a_required cfg)); [exact Hok|].
  destruct k as [k|]; [|exact Hok]. destruct (existsb (creds_eqb k) (a_users cfg)); [exact Hok|].
  destruct (negb (a_has_cmd cfg)); [exact Hok|]. destruct (cache_get c k now); [exact Hok|]. cbn [snd].
  destruct (a_cache_timeout cfg =? 0); [exact Hok|].
  intros a b e [H|H]; [inversion H; subst; exists now; auto|apply (Hok a b e H)].
Qed.

(* no request is routed for a peer lacking valid credentials: an accepted attempt means credentials are not
   required, or the pair is in the user list, or the command accepted exactly this pair - now, or earlier within
   the cache time *)
Theorem accepted_means_authorised cfg cmd c now k : cache_ok cfg cmd c ->
  fst (check cfg cmd c now k) = true ->
  a_required cfg = false \/
  exists u, k = Some u /\ (In u (a_users cfg) \/
            (a_has_cmd cfg = true /\ exists t0, cmd u t0 = true /\ t0 <= now /\ (t0 = now \/ now < t0 + a_cache_timeout cfg)) \/
            (a_has_cmd cfg = true /\ exists t0, cmd u t0 = true /\ now < t0 + a_cache_timeout cfg)).
Proof.
  intros Hok. unfold check. destruct (a_required cfg) eqn:Er; cbn [negb]; [|intros _; left; reflexivity].
  destruct k as [u|]; [|cbn [fst]; discriminate].
  destruct (existsb (creds_eqb u) (a_users cfg)) eqn:Eu.
  - intros _. right. exists u. split; [reflexivity|]. left.
    apply existsb_exists in Eu. destruct Eu as (x & Hin & Hx). apply creds_eqb_eq in Hx. subst x. exact Hin.
  - destruct (a_has_cmd cfg) eqn:Ec; cbn [negb]; [|cbn [fst]; discriminate].
    destruct (cache_get c u now) as [v|] eqn:Eg; cbn [fst]; intros Hv; right; exists u; (split; [reflexivity|]).
    + subst v. right. right. split; [reflexivity|].
      destruct (cache_get_sound cfg cmd c u now true Hok Eg) as (t0 & H1 & H2). exists t0. auto.
    + right. left. split; [reflexivity|]. exists now. repeat split; auto. apply N.le_refl.
Qed.

Theorem missing_credentials_refused cfg cmd c now : a_required cfg = true -> fst (check cfg cmd c now None) = false.
Proof. intros H. unfold check. rewrite H. reflexivity. Qed.

(* a cached verdict is reused only for the identical username and password *)
Theorem cache_is_per_exact_credentials c k k' now v : cache_get c k now = Some v -> k <> k' ->
  cache_get ((k', true, now + 1000) :: c) k now = Some v.
Proof.
  intros H Hne. cbn [cache_get]. destruct (creds_eqb k k') eqn:E; [apply creds_eqb_eq in E; congruence|]. cbn [andb]. exact H.
Qed.

Theorem other_credentials_not_served_from_cache k k' v e now : k <> k' -> cache_get [(k', v, e)] k now = None.
Proof. intros H. cbn [cache_get]. destruct (creds_eqb k k') eqn:E; [apply creds_eqb_eq in E; congruence|]. reflexivity. Qed.

(* ... and only until it expires *)
Theorem expired_entry_not_used k v e now : e <= now -> cache_get [(k, v, e)] k now = None.
Proof. intros H. cbn [cache_get]. assert ((now <? e) = false) by (apply N.ltb_ge; exact H). rewrite H0, andb_false_r. reflexivity. Qed.

(* the invariant holds along every sequence of attempts *)
Theorem attempts_keep_cache_ok cfg cmd l : forall c, cache_ok cfg cmd c -> cache_ok cfg cmd (snd (attempts cfg cmd c l)).
Proof.
  induction l as [|[t k] r IH]; intros c Hok; cbn [attempts]; [exact Hok|].
  pose proof (check_keeps_cache_ok cfg cmd c t k Hok) as H1. destruct (check cfg cmd c t k) as [v c1]. cbn [snd] in H1.
  specialize (IH c1 H1). destruct (attempts cfg cmd c1 r) as [vs c2]. exact IH.
Qed.

(* TLS: with the configured policy in force a listener that requires a client certificate admits only certificates
   of the configured CA, on every listener kind (the three flags are read from the source) *)
Theorem required_policy_enforced_everywhere c :
  listener_admits Gen_auth.http_listener_uses_policy PolicyRequired c = true -> c = CertFromConfiguredCA.
Proof. change Gen_auth.http_listener_uses_policy with true. destruct c; cbn; congruence. Qed.
Theorem required_policy_enforced_socks c :
  listener_admits Gen_auth.socks_listener_uses_policy PolicyRequired c = true -> c = CertFromConfiguredCA.
Proof. change Gen_auth.socks_listener_uses_policy with true. destruct c; cbn; congruence. Qed.
Theorem required_policy_enforced_quic c :
  listener_admits Gen_auth.quic_listener_uses_policy PolicyRequired c = true -> c = CertFromConfiguredCA.
Proof. change Gen_auth.quic_listener_uses_policy with true. destruct c; cbn; congruence. Qed.

Theorem foreign_ca_never_admitted_when_checked p : p <> PolicyNone -> listener_admits true p CertFromOtherCA = false.
Proof. destruct p; cbn; congruence. Qed.

Theorem secure_connector_needs_good_cert s : connector_accepts false s = true -> s = ServerGood.
Proof. destruct s; cbn; congruence. Qed.

(* what fix 0bb4080 repaired: a listener that does not use the configured policy admits everybody *)
Theorem policy_ignored_refuted : listener_admits false PolicyRequired NoCert = true.
Proof. reflexivity. Qed.

Example auth_example :
  let cfg := mk_auth true [([97], [98])] true 10 in
  let cmd := fun (k : creds) (t : N) => bytes_eqb (fst k) [99] && (t <? 100) in
  fst (attempts cfg cmd [] [(1, Some ([99], [1])); (5, Some ([99], [2])); (105, Some ([99], [1])); (106, None); (107, Some ([97], [98]))])
  = [true; true; false; false; true].
Proof. reflexivity. Qed.
