(* Parse/print round trip for the milu expression parser model with ARBITRARY BLANK FILLERS between
   the tokens ("Whitespace, line breaks and comments between tokens never change the result").

   WHAT IS PROVED (no axioms, every proof closed with Qed; the Print Assumptions at the end of the file report
   "Closed under the global context"):

     Definition filler := nat -> bytes.
     Definition filler_ok (f : filler) : Prop := forall k, blank_str (f k) /\ f k <> [].
     Definition m_print_ws (f : filler) (t : tree) : bytes := pw levels unary_tags t f.

     Theorem roundtrip_ws : forall f t, m_wf t -> filler_ok f ->
       parse levels parse2_table parse1_table unary_tags MiluDoc.top_rule ternary_cond_rule (m_print_ws f t)
       = POk (m_denote t) [].
     Theorem roundtrip_ws_fuel : forall f t n, m_wf t -> filler_ok f -> (m_fuel_bound t <= n)%nat ->
       parse_with_fuel ... n (m_print_ws f t) = POk (m_denote t) [].
     Lemma m_print_ws_spaces : forall t, m_print_ws (fun _ => [32]) t = m_print t.
     Theorem m_print_ws_tokens : forall f t,
       m_print_ws f t = weave (m_toks t) f 0 /\ List.length (m_toks t) = S (m_gaps t).
     Corollary blank_invariance : forall f g t, m_wf t -> filler_ok f -> filler_ok g ->
       parse ... (m_print_ws f t) = parse ... (m_print_ws g t).

   tree, m_wf, m_denote, m_print, m_fuel_bound are those of MiluRoundtrip.v (same trees, same side
   conditions, same tree-dependent fuel bound wt t + 47; the fillers only make the input longer, and
   `parse` supplies 64 * (length + 2)).  blank_str (RtBlank.v) is any sequence of white space
   characters, `# ...` comments closed by their line break and `/* ... */` comments; a filler must be
   non-empty (the printer of MiluRoundtrip separates all tokens, and e.g. `a and b` needs it).

   The printer: pw t f prints t like MiluRoundtrip.print, but the k-th token gap in printing order
   receives f k (sub-printers get the shifted filler sh n f = fun k => f (n + k); gaps t is the number
   of gaps).  m_print_ws_tokens states this independently of the recursion: the text is
   tok_0 ++ f 0 ++ tok_1 ++ f 1 ++ ... ++ f (g-1) ++ tok_g for the token list m_toks t, g = m_gaps t,
   so every gap has its own, independently chosen filler.

   Method: Section Comb of MiluRoundtrip.v copied and generalised.  `sep r` (empty or a space) becomes
   `sepw r` (empty or a character that can begin a blank: white space, `#`, `/`), the single space in the
   follow sets / combinators becomes a non-empty closed blank `bl b`, absorbed by skip_blank_closed.
   The ladder check `nospace tag` becomes `nosep (tl tag)`: no tag contains a blank starter after its
   first character (the tag `/` itself is one), so a tag followed by a filler never extends to a longer
   tag; only non-empty tokens are ever compared (tag_sepw). *)
From RP Require Import Base Target MiluSyntax MiluParser MiluDoc RtBlank RtEqs RtLeaf MiluRoundtrip.
From Coq Require Import ZArith String Lia.

(* ========================================================================================= *)
(* Blank fillers and the weak separator                                                       *)
(* ========================================================================================= *)

(* a character that can begin a blank: white space, `#`, `/` *)
Definition sepc (c : N) : bool := is_space c || (c =? 35) || (c =? 47).

(* what follows every printed token: nothing, or a character that can begin a blank *)
Definition sepw (r : bytes) : Prop := r = [] \/ exists c r', r = c :: r' /\ sepc c = true.

(* a non-empty closed blank string *)
Definition bl (b : bytes) : Prop := blank_str b /\ b <> [].

Lemma sepw_nil : sepw []. Proof. left; reflexivity. Qed.

Lemma sepc_cases c : sepc c = true -> c = 32 \/ c = 9 \/ c = 10 \/ c = 13 \/ c = 35 \/ c = 47.
Proof.
  unfold sepc, is_space. intros H.
  destruct (N.eqb_spec c 32); [auto|]. destruct (N.eqb_spec c 9); [auto|].
  destruct (N.eqb_spec c 10); [auto|]. destruct (N.eqb_spec c 13); [auto|].
  destruct (N.eqb_spec c 35); [auto 6|]. destruct (N.eqb_spec c 47); [auto 6|]. discriminate H.
Qed.

Ltac sepc_split H :=
  apply sepc_cases in H;
  destruct H as [H|[H|[H|[H|[H|H]]]]]; subst.

Lemma bl_sepw b r : bl b -> sepw (b ++ r).
Proof.
  intros [H Hne]. right. destruct H as [|c ws Hc _|body nl ws _ _ _|body ws _ _]; [congruence| | |]; cbn [app].
  - exists c, (ws ++ r). split; [reflexivity|]. unfold sepc. rewrite Hc. reflexivity.
  - eexists _, _. split; [reflexivity|]. reflexivity.
  - eexists _, _. split; [reflexivity|]. reflexivity.
Qed.

Lemma bl_blank b : bl b -> blank_str b.
Proof. intros [H _]. exact H. Qed.

Lemma bl_space : bl [32].
Proof. split; [|discriminate]. apply blank_ws; [reflexivity|apply blank_nil]. Qed.

#[export] Hint Resolve sepw_nil bl_sepw bl_blank : rtw.

Lemma skip_blank_bl b c r : blank_str b -> nonblank c r = true -> skip_blank (b ++ c :: r) = c :: r.
Proof. intros Hb H. rewrite skip_blank_closed by exact Hb. apply skip_blank_nonblank. exact H. Qed.

Lemma sepc_lower c : sepc c = true -> lower_b c = c.
Proof. intros H. sepc_split H; reflexivity. Qed.

Lemma sepc_not42 c (r : bytes) : sepc c = true -> match c :: r with 42 :: _ => true | _ => false end = false.
Proof. intros H. sepc_split H; reflexivity. Qed.

(* no character of t is (case-insensitively) a blank starter *)
Definition nosep (t : bytes) : bool := forallb (fun a => negb (sepc (lower_b a))) t.

Lemma nosep_head a c : sepc (lower_b a) = false -> sepc c = true -> (a =? c) = false /\ (lower_b a =? lower_b c) = false.
Proof.
  intros Ha Hc. split.
  - destruct (N.eqb_spec a c) as [->|]; [|reflexivity]. rewrite (sepc_lower c Hc) in Ha. congruence.
  - rewrite (sepc_lower c Hc). destruct (N.eqb_spec (lower_b a) c) as [E|]; [|reflexivity]. rewrite E in Ha. congruence.
Qed.

Lemma tag_sepw_in t : nosep t = true -> forall tk r, sepw r ->
  tag t (tk ++ r) = match tag t tk with Some rem => Some (rem ++ r) | None => None end.
Proof.
  induction t as [|a t IH]; intros Ht tk r Hr; [reflexivity|].
  cbn [nosep forallb] in Ht. apply andb_true_iff in Ht. destruct Ht as [Ha Ht].
  apply negb_true_iff in Ha.
  destruct tk as [|b tk].
  - cbn [app tag]. destruct Hr as [->|(c & r' & -> & Hc)]; [reflexivity|]. cbn [tag].
    rewrite (proj1 (nosep_head a c Ha Hc)). reflexivity.
  - cbn [app tag]. destruct (a =? b); [|reflexivity]. apply IH; assumption.
Qed.

Lemma tag_nc_sepw_in t : nosep t = true -> forall tk r, sepw r ->
  tag_nc t (tk ++ r) = match tag_nc t tk with Some rem => Some (rem ++ r) | None => None end.
Proof.
  induction t as [|a t IH]; intros Ht tk r Hr; [reflexivity|].
  cbn [nosep forallb] in Ht. apply andb_true_iff in Ht. destruct Ht as [Ha Ht].
  apply negb_true_iff in Ha.
  destruct tk as [|b tk].
  - cbn [app tag_nc]. destruct Hr as [->|(c & r' & -> & Hc)]; [reflexivity|]. cbn [tag_nc].
    rewrite (proj2 (nosep_head a c Ha Hc)). reflexivity.
  - cbn [app tag_nc]. destruct (lower_b a =? lower_b b); [|reflexivity]. apply IH; assumption.
Qed.

(* for a NON-EMPTY token only the tail of the tag must avoid blank starters (`/` is a tag) *)
Lemma tag_sepw t : nosep (tl t) = true -> forall tk r, tk <> [] -> sepw r ->
  tag t (tk ++ r) = match tag t tk with Some rem => Some (rem ++ r) | None => None end.
Proof.
  intros Ht tk r Hne Hr. destruct t as [|a t]; [reflexivity|]. destruct tk as [|b tk]; [congruence|].
  cbn [app tag]. destruct (a =? b); [|reflexivity]. apply tag_sepw_in; assumption.
Qed.

Lemma tag_nc_sepw t : nosep (tl t) = true -> forall tk r, tk <> [] -> sepw r ->
  tag_nc t (tk ++ r) = match tag_nc t tk with Some rem => Some (rem ++ r) | None => None end.
Proof.
  intros Ht tk r Hne Hr. destruct t as [|a t]; [reflexivity|]. destruct tk as [|b tk]; [congruence|].
  cbn [app tag_nc]. destruct (lower_b a =? lower_b b); [|reflexivity]. apply tag_nc_sepw_in; assumption.
Qed.

Lemma match_tags_sepw tags :
  forallb (fun t => nosep (tl (bytes_of_string (fst t)))) tags = true -> forall tk r, tk <> [] -> sepw r ->
  match_tags tags (tk ++ r) =
  match match_tags tags tk with Some (op, rem) => Some (op, rem ++ r) | None => None end.
Proof.
  induction tags as [|[t nc] tags IH]; intros Ht tk r Hne Hr; [reflexivity|].
  cbn [forallb fst] in Ht. apply andb_true_iff in Ht. destruct Ht as [Ht Hts].
  cbn [match_tags]. destruct nc.
  - rewrite tag_nc_sepw by assumption.
    destruct (tag_nc (bytes_of_string t) tk) as [rem|] eqn:E.
    + apply tag_nc_length in E. rewrite firstn_app_le by exact E. reflexivity.
    + apply IH; assumption.
  - rewrite tag_sepw by assumption.
    destruct (tag (bytes_of_string t) tk) as [rem|] eqn:E.
    + apply tag_length in E. rewrite firstn_app_le by exact E. reflexivity.
    + apply IH; assumption.
Qed.

Lemma span_allw (p : N -> bool) (a r : bytes) : forallb p a = true ->
  (forall c, sepc c = true -> p c = false) -> sepw r -> span p (a ++ r) = (a, r).
Proof.
  intros Ha Hp Hr. induction a as [|b a IH].
  - cbn [app]. destruct Hr as [->|(c & r' & -> & Hc)]; [reflexivity|]. cbn [span]. rewrite (Hp c Hc). reflexivity.
  - cbn [forallb] in Ha. apply andb_true_iff in Ha. destruct Ha as [Hb Ha].
    cbn [app span]. rewrite Hb, (IH Ha). reflexivity.
Qed.

Lemma id_rest_sepc c : sepc c = true -> id_rest c = false.
Proof. intros H. sepc_split H; reflexivity. Qed.

Lemma is_dec_sepc c : sepc c = true -> (is_dec c || (c =? 95)) = false.
Proof. intros H. sepc_split H; reflexivity. Qed.

Lemma nonblank_appw c tk r : nonblank c tk = true -> sepw r -> nonblank c (tk ++ r) = true.
Proof.
  unfold nonblank. intros H Hr. destruct tk as [|d tk]; [|exact H].
  cbn [app]. destruct Hr as [->|(c' & r' & -> & Hc)]; [exact H|].
  rewrite (sepc_not42 c' r' Hc). exact H.
Qed.

(* any identifier, after an arbitrary closed blank *)
Lemma p_identifier_okw b a r : is_alpha b || (b =? 95) = true -> forallb id_rest a = true -> sepw r ->
  forall lead, blank_str lead -> p_identifier (lead ++ (b :: a) ++ r) = POk (EId (b :: a)) r.
Proof.
  intros Hb Ha Hr lead Hl. unfold p_identifier.
  assert (NB : nonblank b (a ++ r) = true).
  { unfold nonblank. apply orb_true_iff in Hb.
    destruct Hb as [Hb|Hb].
    - unfold is_alpha, in_range in Hb. unfold is_space.
      destruct (N.eqb_spec b 32), (N.eqb_spec b 9), (N.eqb_spec b 10), (N.eqb_spec b 13),
        (N.eqb_spec b 35), (N.eqb_spec b 47); subst; try discriminate Hb; reflexivity.
    - apply N.eqb_eq in Hb. subst b. reflexivity. }
  assert (E : skip_blank (lead ++ (b :: a) ++ r) = b :: a ++ r).
  { cbn [app]. apply skip_blank_bl; assumption. }
  rewrite E, Hb. change (fun x => is_alnum x || (x =? 95)) with id_rest.
  rewrite span_allw; auto using id_rest_sepc.
Qed.

Lemma prefixed_decw (x c : N) (A B : pres expr) : (is_dec x || sepc x) = true -> (97 <= c) ->
  (if lower_b x =? c then A else B) = B.
Proof.
  intros Hx Hc.
  assert (L : x <= 57).
  { apply orb_true_iff in Hx. destruct Hx as [Hx|Hx]; [apply is_dec_facts in Hx; lia|].
    sepc_split Hx; lia. }
  unfold lower_b, in_range.
  destruct (N.leb_spec 65 x); [lia|]. cbn [andb].
  destruct (N.eqb_spec x c); [lia|reflexivity].
Qed.

Lemma p_integer_decw d ds r : forallb is_dec (d :: ds) = true -> sepw r ->
  radix_val 10 (d :: ds) 0 <= I64_MAX ->
  p_integer ((d :: ds) ++ r) = POk (EInt (Z.of_N (radix_val 10 (d :: ds) 0))) r.
Proof.
  intros Hds Hr Hv. pose proof Hds as Hds0.
  cbn [forallb] in Hds. apply andb_true_iff in Hds. destruct Hds as [Hd Hds'].
  assert (NB : nonblank d (ds ++ r) = true).
  { pose proof (is_dec_facts d Hd). unfold nonblank, is_space.
    destruct (N.eqb_spec d 32), (N.eqb_spec d 9), (N.eqb_spec d 10), (N.eqb_spec d 13),
      (N.eqb_spec d 35), (N.eqb_spec d 47); try lia; reflexivity. }
  unfold p_integer. cbn [app]. rewrite skip_blank_nonblank by exact NB.
  assert (P : forall c radix isd, 97 <= c ->
    match d :: ds ++ r with
    | 48 :: x :: r' => if lower_b x =? c then p_radix radix isd r' else PErr
    | _ => PErr end = PErr).
  { intros c radix isd Hc.
    destruct (N.eq_dec d 48) as [->|Hne]; [|apply try_prefixed_no with (k := fun x r' => if lower_b x =? c then p_radix radix isd r' else PErr); exact Hne].
    destruct (ds ++ r) as [|x r'] eqn:E; [reflexivity|].
    apply prefixed_decw; [|exact Hc].
    destruct ds as [|x' ds'].
    - cbn [app] in E. destruct Hr as [->|(c' & r'' & -> & Hc')]; [discriminate|]. inversion E; subst.
      rewrite Hc'. apply orb_true_r.
    - cbn [app] in E. inversion E; subst. cbn [forallb] in Hds'. apply andb_true_iff in Hds'.
      destruct Hds' as [Hx _]. rewrite Hx. reflexivity. }
  rewrite !P by lia.
  unfold p_radix. rewrite Hd.
  change (d :: ds ++ r) with ((d :: ds) ++ r).
  rewrite span_allw; auto using is_dec_sepc.
  - rewrite existsb_95_dec by exact Hds0.
    apply N.leb_le in Hv. rewrite Hv. reflexivity.
  - apply forallb_forall. intros x Hx. rewrite forallb_forall in Hds0. rewrite (Hds0 x Hx). reflexivity.
Qed.

(* ---- fillers ----------------------------------------------------------------------------- *)

Definition filler := nat -> bytes.
Definition filler_ok (f : filler) : Prop := forall k, blank_str (f k) /\ f k <> [].
Definition sh (n : nat) (f : filler) : filler := fun k => f (n + k)%nat.

Lemma filler_bl f k : filler_ok f -> bl (f k).
Proof. intros H. exact (H k). Qed.
Lemma filler_sh f n : filler_ok f -> filler_ok (sh n f).
Proof. intros H k. exact (H (n + k)%nat). Qed.
Lemma filler_len f k : filler_ok f -> (1 <= List.length (f k))%nat.
Proof. intros H. destruct (H k) as [_ Hne]. destruct (f k); [congruence|cbn; lia]. Qed.
#[export] Hint Resolve filler_bl filler_sh : rtw.

Section Comb.
Variable levels : list level.
Variable parse2_table : list (string * string).
Variable parse1_table : list (string * string).
Variable unary_tags : list string.
Variable top_rule : string.
Variable cond_rule : string.
Variable uname : string.            (* the name of the unary level: lv_next of the tightest level *)

Notation p_op0' := (p_op0 levels parse2_table parse1_table unary_tags top_rule cond_rule).
Notation p_if' := (p_if levels parse2_table parse1_table unary_tags top_rule cond_rule).
Notation p_let' := (p_let levels parse2_table parse1_table unary_tags top_rule cond_rule).
Notation p_rule' := (p_rule levels parse2_table parse1_table unary_tags top_rule cond_rule).
Notation p_level_loop' := (p_level_loop levels parse2_table parse1_table unary_tags top_rule cond_rule).
Notation p_unary' := (p_unary levels parse2_table parse1_table unary_tags top_rule cond_rule).
Notation p_postfix' := (p_postfix levels parse2_table parse1_table unary_tags top_rule cond_rule).
Notation p_postfix_loop' := (p_postfix_loop levels parse2_table parse1_table unary_tags top_rule cond_rule).
Notation p_list' := (p_list levels parse2_table parse1_table unary_tags top_rule cond_rule).
Notation p_list_more' := (p_list_more levels parse2_table parse1_table unary_tags top_rule cond_rule).
Notation p_op_value' := (p_op_value levels parse2_table parse1_table unary_tags top_rule cond_rule).
Notation p_value' := (p_value levels parse2_table parse1_table unary_tags top_rule cond_rule).
Notation p_array' := (p_array levels parse2_table parse1_table unary_tags top_rule cond_rule).
Notation p_tuple' := (p_tuple levels parse2_table parse1_table unary_tags top_rule cond_rule).

Definition dummy_level := mk_level "" "" [].
Definition lvl (k : nat) : level := nth k levels dummy_level.
Definition NL : nat := List.length levels.
Definition tagb (t : string * bool) : bytes := bytes_of_string (fst t).
Definition level_toks (lv : level) : list bytes := map tagb (lv_tags lv).
Definition closers0 : list bytes := [[41]; [93]; [44]; [58]].      (* ) ] , : *)
Definition closers : list bytes := [63] :: closers0.               (* ? *)
Definition toks_from (k : nat) : list bytes := closers ++ flat_map level_toks (skipn k levels).
Definition utags : list (string * bool) := map (fun t => (t, false)) unary_tags.

Definition tok_ok (tk : bytes) : bool :=
  match tk with
  | c :: tk' => nonblank c tk' && negb (c =? 91) && negb (c =? 46) && negb (c =? 40)
  | [] => false
  end.

Definition stop_tok (tags : list (string * bool)) (tk : bytes) : bool :=
  match match_tags tags tk with
  | None => true
  | Some (_, c :: _) => negb (operand_start c)
  | Some (_, []) => false
  end.

Definition beq (a b : bytes) : bool := if list_eq_dec N.eq_dec a b then true else false.
Lemma beq_eq a b : beq a b = true -> a = b.
Proof. unfold beq. destruct (list_eq_dec N.eq_dec a b); [auto|discriminate]. Qed.

Definition tag_self_ok (lv : level) (t : string * bool) : bool :=
  match match_tags (lv_tags lv) (tagb t) with
  | Some (op, []) => beq op (tagb t) && match lookup2 parse2_table op with Some _ => true | None => false end
  | _ => false
  end.

Definition tags_ok : bool :=
  forallb (fun lv => forallb (fun t => nosep (tl (tagb t)) && tok_ok (tagb t) && tag_self_ok lv t) (lv_tags lv)) levels.

Definition stop_ok : bool :=
  forallb (fun k => forallb (stop_tok (lv_tags (lvl k))) (toks_from (S k))) (seq 0 NL).

(* head of an operand at the op_0 level: not a blank, not `i`/`l` (keywords if / let) *)
Definition hd0 (c : N) : bool :=
  negb (is_space c) && negb (c =? 35) && negb (c =? 47) && negb (c =? 105) && negb (c =? 108).

Definition unary_self_ok (u : string) : bool :=
  let ub := bytes_of_string u in
  match match_tags utags ub with
  | Some (op, []) => beq op ub && match lookup1 parse1_table op with Some _ => true | None => false end
  | _ => false
  end.

Definition unary_ok : bool :=
  forallb (fun u => let ub := bytes_of_string u in
    nosep (tl ub) &&
    match ub with
    | c :: r => hd0 c && operand_start c && negb (is_alnum c || (c =? 95) || (c =? 40))
    | [] => false
    end && unary_self_ok u) unary_tags.

Hypothesis Hfind : forall k, (k < NL)%nat -> find_level levels (lv_name (lvl k)) = Some (lvl k).
Hypothesis Hnext0 : lv_next (lvl 0) = uname.
Hypothesis HnextS : forall k, (S k < NL)%nat -> lv_next (lvl (S k)) = lv_name (lvl k).
Hypothesis Hun : find_level levels uname = None.
Hypothesis Hpos : (0 < NL)%nat.
Hypothesis Htop : top_rule = lv_name (lvl (NL - 1)).
Hypothesis Hcond : cond_rule = lv_name (lvl (NL - 1)).
Hypothesis Htags : tags_ok = true.
Hypothesis Hstop : stop_ok = true.
Hypothesis Hunary : unary_ok = true.

(* ---- consequences of the boolean checks ------------------------------------------------ *)

Lemma lvl_in k : (k < NL)%nat -> In (lvl k) levels.
Proof. intros H. apply nth_In. exact H. Qed.

Lemma tag_facts lv t : In lv levels -> In t (lv_tags lv) ->
  nosep (tl (tagb t)) = true /\ tok_ok (tagb t) = true /\
  match_tags (lv_tags lv) (tagb t) = Some (tagb t, []) /\
  exists name, lookup2 parse2_table (tagb t) = Some name.
Proof.
  intros Hl Ht. pose proof Htags as H. unfold tags_ok in H.
  rewrite forallb_forall in H. specialize (H lv Hl). rewrite forallb_forall in H. specialize (H t Ht).
  apply andb_true_iff in H. destruct H as [H H3]. apply andb_true_iff in H. destruct H as [H1 H2].
  repeat split; auto.
  - unfold tag_self_ok in H3. destruct (match_tags (lv_tags lv) (tagb t)) as [[op rem]|]; [|discriminate].
    destruct rem; [|discriminate]. apply andb_true_iff in H3. destruct H3 as [E _].
    apply beq_eq in E. subst op. reflexivity.
  - unfold tag_self_ok in H3. destruct (match_tags (lv_tags lv) (tagb t)) as [[op rem]|]; [|discriminate].
    destruct rem; [|discriminate]. apply andb_true_iff in H3. destruct H3 as [E L].
    apply beq_eq in E. subst op. destruct (lookup2 parse2_table (tagb t)) as [n|]; [eauto|discriminate].
Qed.

Lemma level_nospace lv : In lv levels ->
  forallb (fun t => nosep (tl (bytes_of_string (fst t)))) (lv_tags lv) = true.
Proof.
  intros Hl. apply forallb_forall. intros t Ht. apply (tag_facts lv t Hl Ht).
Qed.

Lemma level_tok_ok lv : In lv levels -> forallb (fun t => tok_ok (tagb t)) (lv_tags lv) = true.
Proof.
  intros Hl. apply forallb_forall. intros t Ht. apply (tag_facts lv t Hl Ht).
Qed.

Lemma match_tags_empty tags : forallb (fun t => tok_ok (tagb t)) tags = true -> match_tags tags [] = None.
Proof.
  induction tags as [|[t nc] tags IH]; intros H; [reflexivity|].
  cbn [forallb] in H. apply andb_true_iff in H. destruct H as [H1 H2].
  cbn [match_tags]. unfold tagb in H1. cbn [fst] in H1.
  destruct (bytes_of_string t) as [|a t']; [discriminate|].
  destruct nc; cbn [tag tag_nc]; apply IH; exact H2.
Qed.

Lemma In_skipn {A} (x : A) k l : In x (skipn k l) -> In x l.
Proof. intros H. rewrite <- (firstn_skipn k l). apply in_or_app. right. exact H. Qed.

Lemma In_skipn_S {A} (x : A) : forall k l, In x (skipn (S k) l) -> In x (skipn k l).
Proof.
  induction k as [|k IH]; intros l H.
  - destruct l; [exact H|]. right. exact H.
  - destruct l as [|a l]; [exact H|]. cbn [skipn] in *. apply IH. exact H.
Qed.

Lemma skipn_lvl k : (k < NL)%nat -> skipn k levels = lvl k :: skipn (S k) levels.
Proof.
  unfold NL, lvl. generalize levels. induction k as [|k IH]; intros l H.
  - destruct l; [cbn in H; lia|reflexivity].
  - destruct l as [|a l]; [cbn in H; lia|]. cbn [List.length] in H.
    change (skipn (S k) (a :: l)) with (skipn k l). rewrite IH by lia. reflexivity.
Qed.

Lemma closers_ok tk : In tk closers -> tok_ok tk = true.
Proof. intros H. repeat (destruct H as [<-|H]; [reflexivity|]). destruct H. Qed.

Lemma toks_ok k tk : In tk (toks_from k) -> tok_ok tk = true.
Proof.
  unfold toks_from. intros H. apply in_app_or in H. destruct H as [H|H]; [apply closers_ok; exact H|].
  apply in_flat_map in H. destruct H as (lv & Hl & H). apply In_skipn in Hl.
  unfold level_toks in H. apply in_map_iff in H. destruct H as (t & <- & Ht).
  apply (tag_facts lv t Hl Ht).
Qed.

Lemma toks_mono k tk : In tk (toks_from (S k)) -> In tk (toks_from k).
Proof.
  unfold toks_from. intros H. apply in_or_app. apply in_app_or in H. destruct H as [H|H]; [left; exact H|right].
  apply in_flat_map in H. destruct H as (lv & Hl & H). apply in_flat_map. exists lv. split; [|exact H].
  apply In_skipn_S. exact Hl.
Qed.

Lemma toks_level k t : (k < NL)%nat -> In t (lv_tags (lvl k)) -> In (tagb t) (toks_from k).
Proof.
  intros Hk Ht. unfold toks_from. apply in_or_app. right. rewrite skipn_lvl by exact Hk.
  cbn [flat_map]. apply in_or_app. left. unfold level_toks. apply in_map. exact Ht.
Qed.

Lemma toks_closer k tk : In tk closers -> In tk (toks_from k).
Proof. intros H. unfold toks_from. apply in_or_app. left. exact H. Qed.

Lemma stop_fact k tk : (k < NL)%nat -> In tk (toks_from (S k)) -> stop_tok (lv_tags (lvl k)) tk = true.
Proof.
  intros Hk Ht. pose proof Hstop as H. unfold stop_ok in H. rewrite forallb_forall in H.
  specialize (H k). rewrite forallb_forall in H. apply H; [|exact Ht]. apply in_seq. lia.
Qed.

Lemma unary_facts u : In u unary_tags ->
  let ub := bytes_of_string u in
  nosep (tl ub) = true /\
  (exists c r, ub = c :: r /\ hd0 c = true /\ operand_start c = true /\
     (is_alnum c || (c =? 95) || (c =? 40)) = false) /\
  match_tags utags ub = Some (ub, []) /\ exists name, lookup1 parse1_table ub = Some name.
Proof.
  intros Hu ub. pose proof Hunary as H. unfold unary_ok in H. rewrite forallb_forall in H.
  specialize (H u Hu). cbv zeta in H. fold ub in H.
  apply andb_true_iff in H. destruct H as [H H3]. apply andb_true_iff in H. destruct H as [H1 H2].
  split; [exact H1|]. split.
  - destruct ub as [|c r]; [discriminate|]. exists c, r. split; [reflexivity|].
    apply andb_true_iff in H2. destruct H2 as [H2 H6]. apply andb_true_iff in H2. destruct H2 as [H4 H5].
    apply negb_true_iff in H6. auto.
  - unfold unary_self_ok in H3. fold ub in H3.
    destruct (match_tags utags ub) as [[op rem]|]; [|discriminate].
    destruct rem; [|discriminate]. apply andb_true_iff in H3. destruct H3 as [E L].
    apply beq_eq in E. subst op. split; [reflexivity|].
    destruct (lookup1 parse1_table ub) as [n|]; [eauto|discriminate].
Qed.

Lemma utags_nospace : forallb (fun t => nosep (tl (bytes_of_string (fst t)))) utags = true.
Proof.
  apply forallb_forall. intros t Ht. unfold utags in Ht. apply in_map_iff in Ht.
  destruct Ht as (u & <- & Hu). cbn [fst]. apply (unary_facts u Hu).
Qed.

(* no unary tag begins with c *)
Lemma match_tags_exact_free (us : list string) c r :
  (forall u, In u us -> exists a t, bytes_of_string u = a :: t /\ a <> c) ->
  match_tags (map (fun t => (t, false)) us) (c :: r) = None.
Proof.
  induction us as [|u us IH]; intros H; [reflexivity|].
  cbn [map match_tags]. destruct (H u (or_introl eq_refl)) as (a & t & E & Ha).
  rewrite E. cbn [tag]. destruct (N.eqb_spec a c) as [->|]; [congruence|].
  apply IH. intros u' Hu'. apply H. right. exact Hu'.
Qed.

Lemma match_utags_nonop c r : operand_start c = false -> match_tags utags (c :: r) = None.
Proof.
  intros Hc. apply match_tags_exact_free. intros u Hu.
  destruct (unary_facts u Hu) as (_ & (a & t & E & _ & Ho & _) & _).
  exists a, t. split; [exact E|]. intros ->. congruence.
Qed.

Lemma match_utags_operand c r : (is_alnum c || (c =? 95) || (c =? 40)) = true -> match_tags utags (c :: r) = None.
Proof.
  intros Hc. apply match_tags_exact_free. intros u Hu.
  destruct (unary_facts u Hu) as (_ & (a & t & E & _ & _ & Ho) & _).
  exists a, t. split; [exact E|]. intros ->. congruence.
Qed.


(* ---- dispatch on the head character ---------------------------------------------------- *)

Lemma hd0_nonblank c r : hd0 c = true -> nonblank c r = true.
Proof.
  unfold hd0, nonblank. intros H.
  apply andb_true_iff in H. destruct H as [H _]. apply andb_true_iff in H. destruct H as [H _].
  apply andb_true_iff in H. destruct H as [H H47]. apply andb_true_iff in H. destruct H as [Hs H35].
  rewrite Hs, H35. apply negb_true_iff in H47. rewrite H47. reflexivity.
Qed.

Lemma p_op_value_no40 f c r : nonblank c r = true -> c <> 40 ->
  p_op_value' (S f) (c :: r) = p_value' f (c :: r).
Proof.
  intros Hb Hc. rewrite p_op_value_S, skip_blank_nonblank by exact Hb. cbv zeta.
  lit_cases c; try reflexivity. exfalso; apply Hc; reflexivity.
Qed.

Lemma p_value_plain f c r : nonblank c r = true -> c <> 34 -> c <> 96 ->
  p_value' (S f) (c :: r) =
  match p_boolean (c :: r) with
  | PErr =>
    match p_integer (c :: r) with
    | PErr =>
      match p_identifier (c :: r) with
      | PErr => match p_array' f (c :: r) with PErr => p_tuple' f (c :: r) | x => x end
      | x => x
      end
    | x => x
    end
  | x => x
  end.
Proof.
  intros Hb H1 H2. rewrite p_value_S, skip_blank_nonblank by exact Hb. cbv zeta.
  rewrite p_string_no by assumption.
  lit_cases c; try reflexivity. exfalso; apply H2; reflexivity.
Qed.

Lemma p_postfix_loop_stop f acc i c r : skip_blank i = c :: r -> c <> 91 -> c <> 46 -> c <> 40 ->
  p_postfix_loop' (S f) acc i = POk acc i.
Proof.
  intros E H1 H2 H3. rewrite p_postfix_loop_S. cbv zeta. rewrite E.
  lit_cases c; try reflexivity; exfalso; (apply H1; reflexivity) || (apply H2; reflexivity) || (apply H3; reflexivity).
Qed.

Lemma p_postfix_loop_stop_nil f acc i : skip_blank i = [] -> p_postfix_loop' (S f) acc i = POk acc i.
Proof. intros E. rewrite p_postfix_loop_S. cbv zeta. rewrite E. reflexivity. Qed.


(* ---- failure on a character that cannot start an operand ------------------------------- *)

Lemma nonop_facts c : operand_start c = false ->
  is_alnum c = false /\ c <> 95 /\ c <> 34 /\ c <> 96 /\ c <> 40 /\ c <> 91 /\
  is_space c = false /\ c <> 35 /\ c <> 47.
Proof.
  unfold operand_start. intros H.
  do 11 (apply orb_false_iff in H; destruct H as [H ?]).
  repeat match goal with K : (c =? _) = false |- _ => apply N.eqb_neq in K end.
  repeat split; assumption.
Qed.

Lemma nonop_nonblank c r : operand_start c = false -> nonblank c r = true.
Proof.
  intros H. destruct (nonop_facts c H) as (_ & _ & _ & _ & _ & _ & H1 & H2 & H3).
  unfold nonblank. rewrite H1. apply N.eqb_neq in H2, H3. rewrite H2, H3. reflexivity.
Qed.

Lemma alnum_split c : is_alnum c = false -> is_alpha c = false /\ is_dec c = false.
Proof. unfold is_alnum. intros H. apply orb_false_iff in H. exact H. Qed.

Lemma perr_value c r f : operand_start c = false -> (2 <= f)%nat -> p_value' f (c :: r) = PErr.
Proof.
  intros Hc Hf. pose proof (nonop_nonblank c r Hc) as NB.
  destruct (nonop_facts c Hc) as (Ha & H95 & H34 & H96 & H40 & H91 & _).
  destruct (alnum_split c Ha) as [Hal Hd].
  destruct f as [|[|f]]; try lia.
  rewrite p_value_plain by assumption.
  rewrite p_boolean_no; try assumption; try (intros ->; discriminate Ha).
  rewrite p_integer_no, p_identifier_no by assumption.
  rewrite p_array_S_no by assumption. apply p_tuple_S_no. assumption.
Qed.

Lemma perr_unary c r f : operand_start c = false -> (5 <= f)%nat -> p_unary' f (c :: r) = PErr.
Proof.
  intros Hc Hf. pose proof (nonop_nonblank c r Hc) as NB.
  destruct (nonop_facts c Hc) as (Ha & H95 & H34 & H96 & H40 & H91 & _).
  destruct f as [|[|[|f]]]; try lia.
  rewrite p_unary_S, skip_blank_nonblank by exact NB. cbv zeta.
  fold utags. rewrite match_utags_nonop by exact Hc.
  rewrite p_postfix_S, skip_blank_nonblank by exact NB.
  rewrite p_op_value_no40 by assumption.
  rewrite perr_value by (assumption || lia). reflexivity.
Qed.

Lemma perr_next c r : operand_start c = false -> forall k f, (k < NL)%nat -> (k + 6 <= f)%nat ->
  p_rule' f (lv_next (lvl k)) (c :: r) = PErr.
Proof.
  intros Hc. pose proof (nonop_nonblank c r Hc) as NB.
  induction k as [|k IH]; intros f Hk Hf; (destruct f as [|f]; [lia|]); rewrite p_rule_S.
  - rewrite Hnext0, Hun. apply perr_unary; [exact Hc|lia].
  - rewrite HnextS by exact Hk. rewrite Hfind by lia. cbv zeta.
    rewrite skip_blank_nonblank by exact NB. rewrite IH by lia. reflexivity.
Qed.

Lemma perr_rule c r k f : operand_start c = false -> (k < NL)%nat -> (k + 7 <= f)%nat ->
  p_rule' f (lv_name (lvl k)) (c :: r) = PErr.
Proof.
  intros Hc Hk Hf. destruct f as [|f]; [lia|]. rewrite p_rule_S, Hfind by exact Hk. cbv zeta.
  rewrite skip_blank_nonblank by (apply nonop_nonblank; exact Hc).
  rewrite perr_next by (assumption || lia). reflexivity.
Qed.

Lemma p_rule_name_eq n1 n2 f i : n1 = n2 -> p_rule' f n1 i = p_rule' f n2 i.
Proof. intros ->. reflexivity. Qed.

Lemma tag_head_ne a t c r : a <> c -> tag (a :: t) (c :: r) = None.
Proof. intros H. cbn [tag]. destruct (N.eqb_spec a c); [congruence|reflexivity]. Qed.

Lemma perr_op0 c r f : operand_start c = false -> (NL + 8 <= f)%nat -> p_op0' f (c :: r) = PErr.
Proof.
  intros Hc Hf. pose proof (nonop_nonblank c r Hc) as NB.
  destruct (nonop_facts c Hc) as (Ha & _).
  destruct f as [|[|f]]; try lia.
  rewrite p_op0_S, skip_blank_nonblank by exact NB. cbv zeta.
  rewrite p_if_S_noif.
  2:{ rewrite skip_blank_nonblank by exact NB. apply tag_head_ne. intros <-. discriminate Ha. }
  rewrite skip_blank_nonblank by exact NB. cbv zeta.
  rewrite (p_rule_name_eq cond_rule _ _ _ Hcond), perr_rule by (assumption || lia).
  rewrite p_let_S_nolet.
  2:{ rewrite skip_blank_nonblank by exact NB. apply tag_head_ne. intros <-. discriminate Ha. }
  rewrite (p_rule_name_eq top_rule _ _ _ Htop). apply perr_rule; (assumption || lia).
Qed.

(* ---- a leading closed blank is absorbed ------------------------------------------------ *)

Lemma p_op0_bl f b c r : blank_str b -> nonblank c r = true -> p_op0' f (b ++ c :: r) = p_op0' f (c :: r).
Proof.
  intros Hb H. destruct f; [reflexivity|]. rewrite !p_op0_S, skip_blank_bl, skip_blank_nonblank by assumption.
  reflexivity.
Qed.

Lemma p_unary_bl f b c r : blank_str b -> nonblank c r = true -> p_unary' f (b ++ c :: r) = p_unary' f (c :: r).
Proof.
  intros Hb H. destruct f; [reflexivity|]. rewrite !p_unary_S, skip_blank_bl, skip_blank_nonblank by assumption.
  reflexivity.
Qed.

Lemma p_rule_bl f name b c r : blank_str b -> nonblank c r = true ->
  p_rule' f name (b ++ c :: r) = p_rule' f name (c :: r).
Proof.
  intros Hb H. destruct f; [reflexivity|]. rewrite !p_rule_S.
  destruct (find_level levels name).
  - rewrite skip_blank_bl, skip_blank_nonblank by assumption. reflexivity.
  - apply p_unary_bl; assumption.
Qed.

(* ---- follow sets ----------------------------------------------------------------------- *)

Definition follow (k : nat) (rest : bytes) : Prop :=
  rest = [] \/ exists b tk r, rest = b ++ tk ++ r /\ bl b /\ sepw r /\ In tk (toks_from k).
Definition follow0 (rest : bytes) : Prop :=
  rest = [] \/ exists b tk r, rest = b ++ tk ++ r /\ bl b /\ sepw r /\ In tk closers0.

Lemma follow_sep k rest : follow k rest -> sepw rest.
Proof. intros [->|(b & tk & r & -> & Hb & _)]; auto with rtw. Qed.

Lemma follow_S k rest : follow (S k) rest -> follow k rest.
Proof.
  intros [->|(b & tk & r & -> & Hb & Hr & Ht)]; [left; reflexivity|right].
  exists b, tk, r. auto using toks_mono.
Qed.

Lemma follow_le k k' rest : (k <= k')%nat -> follow k' rest -> follow k rest.
Proof. induction 1 as [|m Hle IH]; [auto|]. intros Hf. apply IH. apply follow_S. exact Hf. Qed.

Lemma follow0_follow k rest : follow0 rest -> follow k rest.
Proof.
  intros [->|(b & tk & r & -> & Hb & Hr & Ht)]; [left; reflexivity|right].
  exists b, tk, r. repeat split; auto; try apply Hb. apply toks_closer. right. exact Ht.
Qed.

Lemma follow_tok k b tk r : bl b -> sepw r -> In tk (toks_from k) -> follow k (b ++ tk ++ r).
Proof. intros Hb Hr Ht. right. exists b, tk, r. auto. Qed.

Lemma follow0_tok b tk r : bl b -> sepw r -> In tk closers0 -> follow0 (b ++ tk ++ r).
Proof. intros Hb Hr Ht. right. exists b, tk, r. auto. Qed.

Lemma tok_ok_ne tk : tok_ok tk = true -> tk <> [].
Proof. destruct tk; [discriminate|discriminate]. Qed.

(* the shape of a non-empty follow: a blank, then a token whose head is harmless *)
Lemma tok_skip tk r : tok_ok tk = true -> sepw r ->
  exists c t, tk = c :: t /\ (forall b, blank_str b -> skip_blank (b ++ tk ++ r) = tk ++ r) /\
    skip_blank (tk ++ r) = tk ++ r /\ c <> 91 /\ c <> 46 /\ c <> 40.
Proof.
  intros H Hr. destruct tk as [|c t]; [discriminate|]. exists c, t.
  cbn [tok_ok] in H. do 3 (apply andb_true_iff in H; destruct H as [H ?]).
  pose proof (nonblank_appw c t r H Hr) as NB.
  repeat match goal with K : negb (c =? _) = true |- _ => apply negb_true_iff in K; apply N.eqb_neq in K end.
  cbn [app]. rewrite skip_blank_nonblank by exact NB. repeat split; auto.
  intros b Hb. apply skip_blank_bl; assumption.
Qed.

(* ---- loops stop on a follow token ------------------------------------------------------ *)

Lemma level_loop_stop k rest acc g : (k < NL)%nat -> follow (S k) rest -> (NL + 7 <= g)%nat ->
  p_level_loop' g (lvl k) acc rest = POk acc rest.
Proof.
  intros Hk Hf Hg. destruct g as [|g]; [lia|]. rewrite p_level_loop_S.
  pose proof (lvl_in k Hk) as Hl.
  destruct Hf as [->|(b & tk & r & -> & Hb & Hr & Ht)].
  - rewrite skip_blank_nil, match_tags_empty by (apply level_tok_ok; exact Hl). reflexivity.
  - destruct (tok_skip tk r (toks_ok _ _ Ht) Hr) as (c & t & E & S1 & _).
    rewrite S1 by apply Hb.
    rewrite match_tags_sepw by (try apply level_nospace; try assumption; rewrite E; discriminate).
    pose proof (stop_fact k tk Hk Ht) as St. unfold stop_tok in St.
    destruct (match_tags (lv_tags (lvl k)) tk) as [[op rem]|]; [|reflexivity].
    destruct rem as [|c' rem]; [discriminate|]. apply negb_true_iff in St.
    cbn [app]. rewrite perr_next by (assumption || lia). reflexivity.
Qed.

Lemma postfix_loop_stop rest acc g : follow 0 rest -> (1 <= g)%nat -> p_postfix_loop' g acc rest = POk acc rest.
Proof.
  intros Hf Hg. destruct g as [|g]; [lia|].
  destruct Hf as [->|(b & tk & r & -> & Hb & Hr & Ht)].
  - apply p_postfix_loop_stop_nil. reflexivity.
  - destruct (tok_skip tk r (toks_ok _ _ Ht) Hr) as (c & t & E & S1 & _ & H1 & H2 & H3).
    specialize (S1 b (bl_blank b Hb)). subst tk. eapply p_postfix_loop_stop; eauto.
Qed.

Lemma ws_char_tok c tk r b : blank_str b -> sepw r -> tok_ok (c :: tk) = true ->
  ws_char c (b ++ (c :: tk) ++ r) = Some (tk ++ r).
Proof.
  intros Hb Hr Ht. destruct (tok_skip (c :: tk) r Ht Hr) as (c' & t & E & S1 & _).
  unfold ws_char. rewrite S1 by exact Hb. cbn [app]. rewrite N.eqb_refl. reflexivity.
Qed.

(* ---- success paths of the dispatching functions ---------------------------------------- *)

Lemma p_postfix_loop_index f acc i r1 ix r2 r3 : skip_blank i = 91 :: r1 ->
  p_op0' f r1 = POk ix r2 -> ws_char 93 r2 = Some r3 ->
  p_postfix_loop' (S f) acc i = p_postfix_loop' f (op2 "Index"%string acc ix) r3.
Proof. intros E H1 H2. rewrite p_postfix_loop_S. cbv zeta. rewrite E, H1, H2. reflexivity. Qed.

Lemma p_postfix_loop_access f acc i r1 id r2 : skip_blank i = 46 :: r1 ->
  p_identifier r1 = POk id r2 ->
  p_postfix_loop' (S f) acc i = p_postfix_loop' f (op2 "Access"%string acc id) r2.
Proof. intros E H1. rewrite p_postfix_loop_S. cbv zeta. rewrite E, H1. reflexivity. Qed.

Lemma p_postfix_loop_call f acc i r1 args r2 r3 : skip_blank i = 40 :: r1 ->
  p_list' f r1 = POk args r2 -> ws_char 41 r2 = Some r3 ->
  p_postfix_loop' (S f) acc i = p_postfix_loop' f (ECall acc args) r3.
Proof. intros E H1 H2. rewrite p_postfix_loop_S. cbv zeta. rewrite E, H1, H2. reflexivity. Qed.

Lemma p_op_value_paren f i0 r0 e r1 r2 : skip_blank i0 = 40 :: r0 ->
  p_op0' f (skip_blank r0) = POk e r1 -> ws_char 41 r1 = Some r2 ->
  p_op_value' (S f) i0 = POk e r2.
Proof. intros E H1 H2. rewrite p_op_value_S. cbv zeta. rewrite E, H1, H2. reflexivity. Qed.

(* ---- semantic predicates: a text X parses to e at a given grammar level ----------------- *)

Definition starts (P : N -> bool) (X : bytes) : Prop := exists c X', X = c :: X' /\ P c = true.
Definition hdP (c : N) : bool := hd0 c && (is_alnum c || (c =? 95) || (c =? 40)).

Definition Op0 (C : nat) (X : bytes) (e : expr) : Prop :=
  starts hd0 X /\ forall rest f, follow0 rest -> (C <= f)%nat -> p_op0' f (X ++ rest) = POk e rest.

Definition Rule (k C D : nat) (X : bytes) (e : expr) : Prop :=
  starts hd0 X /\ forall rest e' r' f0 f, follow k rest ->
    (forall g, (f0 <= g)%nat -> p_level_loop' g (lvl k) e rest = POk e' r') ->
    (C <= f)%nat -> (f0 + D <= f)%nat -> p_rule' f (lv_name (lvl k)) (X ++ rest) = POk e' r'.

Definition Next (k C : nat) (X : bytes) (e : expr) : Prop :=
  starts hd0 X /\ forall rest f, follow k rest -> (C <= f)%nat ->
    p_rule' f (lv_next (lvl k)) (X ++ rest) = POk e rest.

Definition Un (C : nat) (X : bytes) (e : expr) : Prop :=
  starts hd0 X /\ forall rest f, follow 0 rest -> (C <= f)%nat -> p_unary' f (X ++ rest) = POk e rest.

Definition Post (C D : nat) (X : bytes) (e : expr) : Prop :=
  starts hdP X /\ forall rest e' r' f0 f, sepw rest ->
    (forall g, (f0 <= g)%nat -> p_postfix_loop' g e rest = POk e' r') ->
    (C <= f)%nat -> (f0 + D <= f)%nat -> p_postfix' f (X ++ rest) = POk e' r'.

Definition Val (C : nat) (X : bytes) (e : expr) : Prop :=
  starts hdP X /\ forall rest f, sepw rest -> (C <= f)%nat -> p_op_value' f (X ++ rest) = POk e rest.

Lemma hd0_facts c : hd0 c = true -> c <> 105 /\ c <> 108 /\ forall r, nonblank c r = true.
Proof.
  intros H. split; [|split]; [| |intros r; apply hd0_nonblank; exact H];
  unfold hd0 in H; apply andb_true_iff in H; destruct H as [H H108]; apply andb_true_iff in H; destruct H as [H H105];
  [apply negb_true_iff in H105; apply N.eqb_neq in H105; exact H105
  |apply negb_true_iff in H108; apply N.eqb_neq in H108; exact H108].
Qed.

Lemma hdP_hd0 c : hdP c = true -> hd0 c = true.
Proof. unfold hdP. intros H. apply andb_true_iff in H. apply H. Qed.

Lemma starts_hdP_hd0 X : starts hdP X -> starts hd0 X.
Proof. intros (c & X' & E & H). exists c, X'. split; [exact E|apply hdP_hd0; exact H]. Qed.

Lemma starts_skip X r : starts hd0 X ->
  skip_blank (X ++ r) = X ++ r /\ forall b, blank_str b -> skip_blank (b ++ X ++ r) = X ++ r.
Proof.
  intros (c & X' & -> & H). destruct (hd0_facts c H) as (_ & _ & NB). cbn [app].
  rewrite skip_blank_nonblank by apply NB. split; [reflexivity|].
  intros b Hb. apply skip_blank_bl; [exact Hb|apply NB].
Qed.

Lemma starts_noif X r : starts hd0 X -> tag KW_IF (skip_blank (X ++ r)) = None /\ tag KW_LET (skip_blank (X ++ r)) = None.
Proof.
  intros HX. destruct (starts_skip X r HX) as [E _]. rewrite E.
  destruct HX as (c & X' & -> & H). destruct (hd0_facts c H) as (H1 & H2 & _). cbn [app].
  split; apply tag_head_ne; congruence.
Qed.

Lemma p_op0_lead f b X r : blank_str b -> starts hd0 X -> p_op0' f (b ++ X ++ r) = p_op0' f (X ++ r).
Proof. intros Hb (c & X' & -> & H). cbn [app]. apply p_op0_bl; [exact Hb|]. apply hd0_nonblank. exact H. Qed.
Lemma p_rule_lead f name b X r : blank_str b -> starts hd0 X -> p_rule' f name (b ++ X ++ r) = p_rule' f name (X ++ r).
Proof. intros Hb (c & X' & -> & H). cbn [app]. apply p_rule_bl; [exact Hb|]. apply hd0_nonblank. exact H. Qed.
Lemma p_unary_lead f b X r : blank_str b -> starts hd0 X -> p_unary' f (b ++ X ++ r) = p_unary' f (X ++ r).
Proof. intros Hb (c & X' & -> & H). cbn [app]. apply p_unary_bl; [exact Hb|]. apply hd0_nonblank. exact H. Qed.

(* weakening of the fuel parameters *)
Lemma Op0_weaken C C' X e : (C <= C')%nat -> Op0 C X e -> Op0 C' X e.
Proof. intros L [S H]. split; [exact S|]. intros. apply H; [assumption|lia]. Qed.
Lemma Rule_weaken k C D C' D' X e : (C <= C')%nat -> (D <= D')%nat -> Rule k C D X e -> Rule k C' D' X e.
Proof. intros L1 L2 [S H]. split; [exact S|]. intros. eapply H; eauto; lia. Qed.
Lemma Next_weaken k C C' X e : (C <= C')%nat -> Next k C X e -> Next k C' X e.
Proof. intros L [S H]. split; [exact S|]. intros. apply H; [assumption|lia]. Qed.
Lemma Un_weaken C C' X e : (C <= C')%nat -> Un C X e -> Un C' X e.
Proof. intros L [S H]. split; [exact S|]. intros. apply H; [assumption|lia]. Qed.
Lemma Post_weaken C D C' D' X e : (C <= C')%nat -> (D <= D')%nat -> Post C D X e -> Post C' D' X e.
Proof. intros L1 L2 [S H]. split; [exact S|]. intros. eapply H; eauto; lia. Qed.


Ltac norm_app := repeat (cbn [app]; rewrite <- app_assoc); cbn [app].

(* ---- atoms ------------------------------------------------------------------------------ *)

(* identifiers whose first character is a letter other than t, f, i, l (or an underscore) *)
Definition id_start (b : N) : bool :=
  (is_alpha b || (b =? 95)) && negb (b =? 116) && negb (b =? 102) && negb (b =? 105) && negb (b =? 108).

Lemma alpha_range b : is_alpha b = true -> (65 <= b <= 90) \/ (97 <= b <= 122).
Proof.
  unfold is_alpha, in_range. intros H. apply orb_true_iff in H.
  destruct H as [H|H]; apply andb_true_iff in H; destruct H as [H1 H2]; apply N.leb_le in H1, H2; lia.
Qed.

Ltac eqbs b :=
  repeat match goal with
  | |- context [b =? ?k] =>
    let E := fresh in assert (E : (b =? k) = false) by (apply N.eqb_neq; lia); rewrite E; clear E
  end.

Lemma id_start_facts b : id_start b = true ->
  hdP b = true /\ b <> 34 /\ b <> 96 /\ b <> 40 /\ b <> 116 /\ b <> 102 /\ is_dec b = false /\
  (is_alpha b || (b =? 95)) = true.
Proof.
  unfold id_start. intros H.
  apply andb_true_iff in H. destruct H as [H H108]. apply andb_true_iff in H. destruct H as [H H105].
  apply andb_true_iff in H. destruct H as [H H102]. apply andb_true_iff in H. destruct H as [Hab H116].
  apply negb_true_iff in H108, H105, H102, H116. apply N.eqb_neq in H108, H105, H102, H116.
  pose proof Hab as Hab0. apply orb_true_iff in Hab. destruct Hab as [Ha|Hu].
  - pose proof (alpha_range b Ha) as R.
    assert (Hd : is_dec b = false).
    { unfold is_dec, in_range. destruct (N.leb_spec 48 b), (N.leb_spec b 57); try reflexivity; lia. }
    repeat split; try lia; try assumption.
    unfold hdP, hd0, is_space, is_alnum. rewrite Ha. eqbs b. reflexivity.
  - apply N.eqb_eq in Hu. subst b. repeat split; try lia; reflexivity.
Qed.

Lemma dec_facts d : is_dec d = true ->
  hdP d = true /\ d <> 34 /\ d <> 96 /\ d <> 40 /\ d <> 116 /\ d <> 102.
Proof.
  intros H. pose proof (is_dec_facts d H) as R. repeat split; try lia.
  unfold hdP, hd0, is_space, is_alnum. rewrite H. eqbs d. rewrite orb_true_r. reflexivity.
Qed.

Lemma val_ident b a : id_start b = true -> forallb id_rest a = true -> Val 3 (b :: a) (EId (b :: a)).
Proof.
  intros Hb Ha. destruct (id_start_facts b Hb) as (HP & H34 & H96 & H40 & H116 & H102 & Hd & Hab).
  split; [exists b, a; auto|].
  intros rest f Hr Hf. destruct f as [|[|[|f]]]; try lia.
  pose proof (hd0_nonblank b (a ++ rest) (hdP_hd0 b HP)) as NB.
  cbn [app]. rewrite p_op_value_no40 by assumption.
  rewrite p_value_plain by assumption.
  rewrite p_boolean_no by assumption. rewrite p_integer_no by assumption.
  change (b :: a ++ rest) with ([] ++ (b :: a) ++ rest).
  rewrite p_identifier_okw; auto. apply blank_nil.
Qed.

Lemma val_int d ds : forallb is_dec (d :: ds) = true -> radix_val 10 (d :: ds) 0 <= I64_MAX ->
  Val 3 (d :: ds) (EInt (Z.of_N (radix_val 10 (d :: ds) 0))).
Proof.
  intros Hds Hv. pose proof Hds as Hds0. cbn [forallb] in Hds. apply andb_true_iff in Hds. destruct Hds as [Hd _].
  destruct (dec_facts d Hd) as (HP & H34 & H96 & H40 & H116 & H102).
  split; [exists d, ds; auto|].
  intros rest f Hr Hf. destruct f as [|[|[|f]]]; try lia.
  pose proof (hd0_nonblank d (ds ++ rest) (hdP_hd0 d HP)) as NB.
  cbn [app]. rewrite p_op_value_no40 by assumption.
  rewrite p_value_plain by assumption.
  rewrite p_boolean_no by assumption.
  change (d :: ds ++ rest) with ((d :: ds) ++ rest).
  rewrite p_integer_decw by assumption. reflexivity.
Qed.

Lemma ws_char_lit c r b : blank_str b -> sepw r -> tok_ok [c] = true -> ws_char c (b ++ c :: r) = Some r.
Proof. intros Hb Hr Ht. apply (ws_char_tok c [] r b Hb Hr Ht). Qed.

(* texts with explicit blanks *)
Definition t_paren (b1 X b2 : bytes) : bytes := 40 :: b1 ++ X ++ b2 ++ [41].
Definition t_bin (L b1 op b2 R : bytes) : bytes := L ++ b1 ++ op ++ b2 ++ R.
Definition t_un (op b X : bytes) : bytes := op ++ b ++ X.
Definition t_index (A b1 b2 I b3 : bytes) : bytes := A ++ b1 ++ 91 :: b2 ++ I ++ b3 ++ [93].
Definition t_access (A b1 b2 fld : bytes) : bytes := A ++ b1 ++ 46 :: b2 ++ fld.
Definition t_call0 (A b1 b2 : bytes) : bytes := A ++ b1 ++ 40 :: b2 ++ [41].
Definition t_call1 (A b1 b2 Y Xm b3 : bytes) : bytes := A ++ b1 ++ 40 :: b2 ++ Y ++ Xm ++ b3 ++ [41].
Definition t_argn (b1 b2 Y : bytes) : bytes := b1 ++ 44 :: b2 ++ Y.
Definition t_cond (C b1 b2 Y b3 b4 N : bytes) : bytes := C ++ b1 ++ 63 :: b2 ++ Y ++ b3 ++ 58 :: b4 ++ N.

Lemma val_paren C X e b1 b2 : bl b1 -> bl b2 -> Op0 C X e -> Val (S C) (t_paren b1 X b2) e.
Proof.
  intros B1 B2 [S H]. unfold t_paren. split; [exists 40, (b1 ++ X ++ b2 ++ [41]); auto|].
  intros rest f Hr Hf. destruct f as [|f]; [lia|]. norm_app.
  eapply p_op_value_paren.
  - apply skip_blank_nonblank. reflexivity.
  - destruct (starts_skip X (b2 ++ 41 :: rest) S) as [_ E]. rewrite E by apply B1.
    apply H; [|lia]. apply (follow0_tok b2 [41] rest B2 Hr). cbn. auto.
  - apply ws_char_lit; auto with rtw.
Qed.

(* ---- postfix chains --------------------------------------------------------------------- *)

Lemma post_of_val C X e : Val C X e -> Post (S C) 1 X e.
Proof.
  intros [S H]. split; [exact S|].
  intros rest e' r' f0 f Hr Hk HC HD. destruct f as [|f]; [lia|].
  rewrite p_postfix_S. destruct (starts_skip X rest (starts_hdP_hd0 X S)) as [E _]. rewrite E.
  rewrite H by (assumption || lia). apply Hk. lia.
Qed.

Lemma starts_app P X Y : starts P X -> starts P (X ++ Y).
Proof. intros (c & X' & -> & H). exists c, (X' ++ Y). auto. Qed.

Lemma post_index C D X e C2 Y ei C' D' b1 b2 b3 : bl b1 -> bl b2 -> bl b3 -> Post C D X e -> Op0 C2 Y ei ->
  (C <= C')%nat -> (C2 + D + 1 <= C')%nat -> (D + 1 <= D')%nat ->
  Post C' D' (t_index X b1 b2 Y b3) (op2 "Index"%string e ei).
Proof.
  intros B1 B2 B3 [S H] [SY HY] L1 L2 L3. unfold t_index. split; [apply starts_app; exact S|].
  intros rest e' r' f0 f Hr Hk HC HD. norm_app.
  apply (H (b1 ++ 91 :: b2 ++ Y ++ b3 ++ 93 :: rest) e' r' (Datatypes.S (Nat.max C2 f0)) f); auto with rtw; try lia.
  intros g Hg. destruct g as [|g]; [lia|].
  erewrite p_postfix_loop_index.
  - apply Hk. lia.
  - apply skip_blank_bl; [apply B1|reflexivity].
  - rewrite p_op0_lead by (try exact SY; apply B2). apply HY; [|lia]. apply (follow0_tok b3 [93] rest B3 Hr). cbn. auto.
  - apply ws_char_lit; auto with rtw.
Qed.

Lemma post_access C D X e b a D' b1 b2 : bl b1 -> bl b2 -> Post C D X e ->
  (is_alpha b || (b =? 95)) = true -> forallb id_rest a = true -> (D + 1 <= D')%nat ->
  Post C D' (t_access X b1 b2 (b :: a)) (op2 "Access"%string e (EId (b :: a))).
Proof.
  intros B1 B2 [S H] Hb Ha L. unfold t_access. split; [apply starts_app; exact S|].
  intros rest e' r' f0 f Hr Hk HC HD. norm_app.
  apply (H (b1 ++ 46 :: b2 ++ b :: a ++ rest) e' r' (Datatypes.S f0) f); auto with rtw; try lia.
  intros g Hg. destruct g as [|g]; [lia|].
  erewrite p_postfix_loop_access.
  - apply Hk. lia.
  - apply skip_blank_bl; [apply B1|reflexivity].
  - change (b2 ++ b :: a ++ rest) with (b2 ++ (b :: a) ++ rest). apply p_identifier_okw; auto with rtw.
Qed.

(* the tail of an argument list: ( , arg)* up to the closing parenthesis *)
Definition args_shape (X : bytes) : Prop :=
  X = [] \/ exists b1 b2 X', bl b1 /\ bl b2 /\ X = b1 ++ 44 :: b2 ++ X'.

Definition Args (C : nat) (X : bytes) (es : list expr) : Prop :=
  args_shape X /\
  forall acc rest f b, bl b -> sepw rest -> (C <= f)%nat ->
    p_list_more' f acc (X ++ b ++ 41 :: rest) = POk (rev acc ++ es) (b ++ 41 :: rest).

Lemma args_follow0 X rest b : args_shape X -> bl b -> sepw rest -> follow0 (X ++ b ++ 41 :: rest).
Proof.
  intros [->|(b1 & b2 & X' & B1 & B2 & ->)] Hb Hr.
  - apply (follow0_tok b [41] rest Hb Hr). cbn. auto.
  - norm_app. apply (follow0_tok b1 [44] (b2 ++ X' ++ b ++ 41 :: rest)); auto with rtw. cbn. auto.
Qed.

Lemma args_nil : Args 1 [] [].
Proof.
  split; [left; reflexivity|]. intros acc rest f b Hb Hr Hf. destruct f as [|f]; [lia|].
  rewrite p_list_more_S. cbn [app]. unfold ws_char. rewrite skip_blank_bl by (apply Hb || reflexivity).
  change (41 =? 44) with false. cbv iota. rewrite app_nil_r. reflexivity.
Qed.

Lemma args_cons C1 Y e1 C2 X es b1 b2 : bl b1 -> bl b2 -> Op0 C1 Y e1 -> Args C2 X es ->
  Args (S (Nat.max C1 C2)) (t_argn b1 b2 Y ++ X) (e1 :: es).
Proof.
  intros B1 B2 [SY HY] [Sh HX]. unfold t_argn.
  split; [right; exists b1, b2, (Y ++ X); split; [exact B1|split; [exact B2|]]; norm_app; reflexivity|].
  intros acc rest f b Hb Hr Hf. destruct f as [|f]; [lia|]. norm_app.
  rewrite p_list_more_S. rewrite ws_char_lit by auto with rtw.
  rewrite p_op0_lead by (try exact SY; apply B2). rewrite HY by (try apply args_follow0; auto; lia).
  rewrite HX by (auto; lia). cbn [rev]. rewrite <- app_assoc. reflexivity.
Qed.

Lemma post_call_nil C D X e C' D' b1 b2 : bl b1 -> bl b2 -> Post C D X e ->
  (C <= C')%nat -> (NL + 10 + D <= C')%nat -> (D + 1 <= D')%nat ->
  Post C' D' (t_call0 X b1 b2) (ECall e []).
Proof.
  intros B1 B2 [S H] L1 L2 L3. unfold t_call0. split; [apply starts_app; exact S|].
  intros rest e' r' f0 f Hr Hk HC HD. norm_app.
  apply (H (b1 ++ 40 :: b2 ++ 41 :: rest) e' r' (Datatypes.S (Nat.max (NL + 9) f0)) f); auto with rtw; try lia.
  intros g Hg. destruct g as [|[|g]]; try lia.
  erewrite p_postfix_loop_call.
  - apply Hk. lia.
  - apply skip_blank_bl; [apply B1|reflexivity].
  - rewrite p_list_S. rewrite p_op0_bl by (apply B2 || reflexivity). rewrite perr_op0 by (reflexivity || lia). reflexivity.
  - apply ws_char_lit; auto with rtw.
Qed.

Lemma post_call_cons C D X e C1 Y e1 C2 Xm es C' D' b1 b2 b3 : bl b1 -> bl b2 -> bl b3 ->
  Post C D X e -> Op0 C1 Y e1 -> Args C2 Xm es ->
  (C <= C')%nat -> (Nat.max C1 C2 + 2 + D <= C')%nat -> (D + 1 <= D')%nat ->
  Post C' D' (t_call1 X b1 b2 Y Xm b3) (ECall e (e1 :: es)).
Proof.
  intros B1 B2 B3 [S H] [SY HY] [Sh HX] L1 L2 L3. unfold t_call1. split; [apply starts_app; exact S|].
  intros rest e' r' f0 f Hr Hk HC HD. norm_app.
  apply (H (b1 ++ 40 :: b2 ++ Y ++ Xm ++ b3 ++ 41 :: rest) e' r' (Datatypes.S (Nat.max (Nat.max C1 C2 + 1) f0)) f);
    auto with rtw; try lia.
  intros g Hg. destruct g as [|[|g]]; try lia.
  erewrite p_postfix_loop_call.
  - apply Hk. lia.
  - apply skip_blank_bl; [apply B1|reflexivity].
  - rewrite p_list_S. rewrite p_op0_lead by (try exact SY; apply B2).
    rewrite HY by (try apply args_follow0; auto; lia).
    rewrite HX by (auto; lia). reflexivity.
  - apply ws_char_lit; auto with rtw.
Qed.

(* ---- unary ------------------------------------------------------------------------------ *)

Lemma un_of_post C D X e : Post C D X e -> Un (S (Nat.max C (1 + D))) X e.
Proof.
  intros [S H]. pose proof (starts_hdP_hd0 X S) as S0. split; [exact S0|].
  intros rest f Hf HC. destruct f as [|f]; [lia|].
  rewrite p_unary_S. destruct (starts_skip X rest S0) as [E _]. rewrite E. cbv zeta.
  fold utags.
  assert (M : match_tags utags (X ++ rest) = None).
  { destruct S as (c & X' & -> & Hc). cbn [app]. apply match_utags_operand.
    unfold hdP in Hc. apply andb_true_iff in Hc. apply Hc. }
  rewrite M.
  apply (H rest e rest 1%nat f); [eapply follow_sep; eauto| |lia|lia].
  intros g Hg. apply postfix_loop_stop; assumption.
Qed.

Lemma un_un u name C X e b : bl b -> In u unary_tags -> lookup1 parse1_table (bytes_of_string u) = Some name ->
  Un C X e -> Un (S C) (t_un (bytes_of_string u) b X) (op1 name e).
Proof.
  intros B Hu Hn [S H]. unfold t_un.
  destruct (unary_facts u Hu) as (Hns & (c & t & E & Hc & _) & Hm & _).
  split; [rewrite E; exists c, (t ++ b ++ X); auto|].
  intros rest f Hf HC. destruct f as [|f]; [lia|]. norm_app.
  rewrite p_unary_S.
  assert (SK : skip_blank (bytes_of_string u ++ b ++ X ++ rest) = bytes_of_string u ++ b ++ X ++ rest).
  { rewrite E. cbn [app]. apply skip_blank_nonblank. apply hd0_nonblank. exact Hc. }
  rewrite SK. cbv zeta. fold utags.
  rewrite match_tags_sepw by (auto with rtw; try apply utags_nospace; rewrite E; discriminate). rewrite Hm. cbn [app].
  rewrite p_unary_lead by (try exact S; apply B). rewrite H by (assumption || lia). rewrite Hn. reflexivity.
Qed.

(* ---- binary levels ---------------------------------------------------------------------- *)

Lemma next0_of_un C X e : Un C X e -> Next 0 (S C) X e.
Proof.
  intros [S H]. split; [exact S|]. intros rest f Hf HC. destruct f as [|f]; [lia|].
  rewrite p_rule_S, Hnext0, Hun. apply H; [assumption|lia].
Qed.

Lemma rule_of_next k C X e : (k < NL)%nat -> Next k C X e -> Rule k (S C) 1 X e.
Proof.
  intros Hk [S H]. split; [exact S|]. intros rest e' r' f0 f Hf Hc HC HD. destruct f as [|f]; [lia|].
  rewrite p_rule_S, Hfind by exact Hk. cbv zeta.
  destruct (starts_skip X rest S) as [E _]. rewrite E.
  rewrite H by (assumption || lia). apply Hc. lia.
Qed.

Lemma rule_done k C D X e rest f : (k < NL)%nat -> Rule k C D X e -> follow (S k) rest ->
  (C <= f)%nat -> (NL + 7 + D <= f)%nat -> p_rule' f (lv_name (lvl k)) (X ++ rest) = POk e rest.
Proof.
  intros Hk [S H] Hf HC HD.
  apply (H rest e rest (NL + 7)%nat f); [apply follow_S; exact Hf| |lia|lia].
  intros g Hg. apply level_loop_stop; assumption.
Qed.

Lemma next_of_rule k C D X e : (S k < NL)%nat -> Rule k C D X e -> Next (S k) (S (Nat.max C (NL + 7 + D))) X e.
Proof.
  intros Hk R. split; [apply R|]. intros rest f Hf HC.
  rewrite HnextS by exact Hk. apply (rule_done k C D); auto; lia.
Qed.

Lemma rule_bin k t name CL DL XL eL CR XR eR C' D' b1 b2 : bl b1 -> bl b2 -> (k < NL)%nat -> In t (lv_tags (lvl k)) ->
  lookup2 parse2_table (tagb t) = Some name ->
  Rule k CL DL XL eL -> Next k CR XR eR ->
  (CL <= C')%nat -> (1 + CR + DL <= C')%nat -> (DL + 1 <= D')%nat ->
  Rule k C' D' (t_bin XL b1 (tagb t) b2 XR) (op2 name eL eR).
Proof.
  intros B1 B2 Hk Ht Hn [SL HL] [SR HR] L1 L2 L3. unfold t_bin. split; [apply starts_app; exact SL|].
  intros rest e' r' f0 f Hf Hc HC HD. norm_app.
  pose proof (lvl_in k Hk) as Hl.
  destruct (tag_facts (lvl k) t Hl Ht) as (Hns & Hok & Hm & _).
  apply (HL (b1 ++ tagb t ++ b2 ++ XR ++ rest) e' r' (S (Nat.max CR f0)) f); try lia.
  - apply follow_tok; auto with rtw. apply toks_level; assumption.
  - intros g Hg. destruct g as [|g]; [lia|]. rewrite p_level_loop_S.
    destruct (tok_skip (tagb t) (b2 ++ XR ++ rest) Hok (bl_sepw _ _ B2)) as (c & t' & _ & S1 & _).
    rewrite S1 by apply B1.
    rewrite match_tags_sepw by (auto with rtw; try (apply level_nospace; exact Hl); apply tok_ok_ne; exact Hok).
    rewrite Hm. cbn [app]. rewrite p_rule_lead by (try exact SR; apply B2).
    rewrite HR by (assumption || lia). rewrite Hn. apply Hc. lia.
Qed.

(* ---- op_0 ------------------------------------------------------------------------------- *)

Lemma ws63_follow0 rest : follow0 rest -> ws_char 63 rest = None.
Proof.
  intros [->|(b & tk & r & -> & Hb & Hr & Ht)]; [reflexivity|].
  unfold ws_char. cbn in Ht.
  repeat (destruct Ht as [<-|Ht]; [cbn [app]; rewrite skip_blank_bl by (apply Hb || reflexivity); reflexivity|]).
  destruct Ht.
Qed.

Lemma NL_pred : S (NL - 1) = NL.
Proof. lia. Qed.

Lemma top_done C D X e rest g : Rule (NL - 1) C D X e -> follow NL rest ->
  (C <= g)%nat -> (NL + 7 + D <= g)%nat -> p_rule' g (lv_name (lvl (NL - 1))) (X ++ rest) = POk e rest.
Proof.
  intros R Hf HC HD. apply (rule_done (NL - 1) C D); auto; try lia. rewrite NL_pred. exact Hf.
Qed.

Lemma op0_of_rule C D X e : Rule (NL - 1) C D X e -> Op0 (2 + Nat.max C (NL + 7 + D)) X e.
Proof.
  intros R. pose proof R as [S _]. split; [exact S|]. intros rest f Hf HC.
  destruct f as [|[|f]]; try lia.
  destruct (starts_skip X rest S) as [E1 _]. destruct (starts_noif X rest S) as [I1 I2].
  assert (FN : follow NL rest) by (apply follow0_follow; exact Hf).
  rewrite p_op0_S. cbv zeta. rewrite E1.
  rewrite p_if_S_noif by exact I1. rewrite E1. cbv zeta.
  rewrite (p_rule_name_eq cond_rule _ _ _ Hcond), (top_done C D X e) by (assumption || lia).
  rewrite ws63_follow0 by exact Hf.
  rewrite p_let_S_nolet by exact I2.
  rewrite (p_rule_name_eq top_rule _ _ _ Htop). apply (top_done C D X e); (assumption || lia).
Qed.

Lemma op0_cond Cc Dc XC ec Cy XY ey Cn XN en b1 b2 b3 b4 : bl b1 -> bl b2 -> bl b3 -> bl b4 ->
  Rule (NL - 1) Cc Dc XC ec -> Op0 Cy XY ey -> Op0 Cn XN en ->
  Op0 (2 + Nat.max (Nat.max Cc (NL + 7 + Dc)) (Nat.max Cy Cn))
      (t_cond XC b1 b2 XY b3 b4 XN) (op3 "If"%string ec ey en).
Proof.
  intros B1 B2 B3 B4 R [SY HY] [SN HN]. unfold t_cond. pose proof R as [S _]. split; [apply starts_app; exact S|].
  intros rest f Hf HC. destruct f as [|[|f]]; try lia. norm_app.
  pose proof (follow_sep 0 rest (follow0_follow 0 rest Hf)) as Hr.
  set (R1 := b1 ++ 63 :: b2 ++ XY ++ b3 ++ 58 :: b4 ++ XN ++ rest).
  destruct (starts_skip XC R1 S) as [E1 _]. destruct (starts_noif XC R1 S) as [I1 _].
  rewrite p_op0_S. cbv zeta. rewrite E1.
  rewrite p_if_S_noif by exact I1. rewrite E1. cbv zeta.
  rewrite (p_rule_name_eq cond_rule _ _ _ Hcond).
  rewrite (top_done Cc Dc XC ec) by (try assumption; try lia;
    apply (follow_tok NL b1 [63]); auto with rtw; apply toks_closer; cbn; auto).
  unfold R1. rewrite ws_char_lit by auto with rtw.
  rewrite p_op0_lead by (try exact SY; apply B2).
  rewrite HY by (try lia; apply (follow0_tok b3 [58]); auto with rtw; cbn; auto).
  rewrite ws_char_lit by auto with rtw.
  rewrite p_op0_lead by (try exact SN; apply B4). rewrite HN by (assumption || lia). reflexivity.
Qed.


(* ========================================================================================= *)
(* Trees (MiluRoundtrip.tree), the filler printer, and the round trip                         *)
(* ========================================================================================= *)

Definition atom_ok (x : bytes) : Prop :=
  match x with b :: a => id_start b = true /\ forallb id_rest a = true | [] => False end.
Definition field_ok (x : bytes) : Prop :=
  match x with b :: a => (is_alpha b || (b =? 95)) = true /\ forallb id_rest a = true | [] => False end.
Definition int_ok (ds : bytes) : Prop :=
  ds <> [] /\ forallb is_dec ds = true /\ radix_val 10 ds 0 <= I64_MAX.

Local Open Scope nat_scope.

Definition bin_tag (m j : nat) : string * bool := nth j (lv_tags (lvl m)) (""%string, false).
Definition bin_name (m j : nat) : string :=
  match lookup2 parse2_table (tagb (bin_tag m j)) with Some n => n | None => ""%string end.
Definition un_tag (j : nat) : string := nth j unary_tags ""%string.
Definition un_name (j : nat) : string :=
  match lookup1 parse1_table (bytes_of_string (un_tag j)) with Some n => n | None => ""%string end.

(* 0: postfix chains and atoms; 1: unary; m + 2: binary level m; NL + 2: conditional *)
Definition rank (t : tree) : nat :=
  match t with
  | TBin m _ _ _ => m + 2
  | TUn _ _ => 1
  | TCond _ _ _ => NL + 2
  | _ => 0
  end.

Fixpoint denote (t : tree) : expr :=
  match t with
  | TAtom x => EId x
  | TInt ds => EInt (Z.of_N (radix_val 10 ds 0))
  | TBin m j l r => op2 (bin_name m j) (denote l) (denote r)
  | TUn j t' => op1 (un_name j) (denote t')
  | TIndex a i => op2 "Index"%string (denote a) (denote i)
  | TAccess a fld => op2 "Access"%string (denote a) (EId fld)
  | TCall f args => ECall (denote f) (map denote args)
  | TCond c y n => op3 "If"%string (denote c) (denote y) (denote n)
  end.

Fixpoint wf (t : tree) : Prop :=
  match t with
  | TAtom x => atom_ok x
  | TInt ds => int_ok ds
  | TBin m j l r => m < NL /\ j < List.length (lv_tags (lvl m)) /\ wf l /\ wf r
  | TUn j t' => j < List.length unary_tags /\ wf t'
  | TIndex a i => wf a /\ wf i
  | TAccess a fld => wf a /\ field_ok fld
  | TCall f args => wf f /\ (fix wfl (l : list tree) : Prop := match l with [] => True | a :: l' => wf a /\ wfl l' end) args
  | TCond c y n => wf c /\ wf y /\ wf n
  end.

Lemma wf_call_forall f args : wf (TCall f args) -> wf f /\ Forall wf args.
Proof.
  cbn [wf]. intros [Hf H]. split; [exact Hf|]. induction args as [|a l IH]; constructor.
  - apply H. - apply IH. apply H.
Qed.

(* ---- the printer with fillers ------------------------------------------------------------ *)

(* number of token gaps (separators) of the printed text *)
Definition gw (b : bool) (g : nat) : nat := if b then g + 2 else g.

Fixpoint gaps (t : tree) : nat :=
  match t with
  | TAtom _ | TInt _ => 0
  | TBin m j l r => gw (m + 2 <? rank l) (gaps l) + 2 + gw (m + 2 <=? rank r) (gaps r)
  | TUn j t' => 1 + gw (2 <=? rank t') (gaps t')
  | TIndex a i => gw (1 <=? rank a) (gaps a) + 2 + gaps i + 1
  | TAccess a _ => gw (1 <=? rank a) (gaps a) + 2
  | TCall f args =>
      match args with
      | [] => gw (1 <=? rank f) (gaps f) + 2
      | a :: l => gw (1 <=? rank f) (gaps f) + 2 + gaps a + list_sum (map (fun x => 2 + gaps x) l) + 1
      end
  | TCond c y n => gw (NL + 2 <=? rank c) (gaps c) + 2 + gaps y + 2 + gaps n
  end.

(* ( X ) with the fillers 0 and g+1, where g = number of gaps of X; X printed with the fillers 1.. *)
Definition wrapw (b : bool) (g : nat) (p : filler -> bytes) (f : filler) : bytes :=
  if b then t_paren (f 0) (p (sh 1 f)) (f (S g)) else p f.

(* , x1 , x2 ...: every further argument takes the fillers 0 and 1 and then its own *)
Definition pw_args (p : tree -> filler -> bytes) : list tree -> filler -> bytes :=
  fix go (l : list tree) (f : filler) : bytes :=
    match l with
    | [] => []
    | x :: l' => t_argn (f 0) (f 1) (p x (sh 2 f)) ++ go l' (sh (2 + gaps x) f)
    end.

(* pw t f: print t, the k-th token gap (in printing order) filled with f k *)
Fixpoint pw (t : tree) (f : filler) {struct t} : bytes :=
  match t with
  | TAtom x => x
  | TInt ds => ds
  | TBin m j l r =>
      let bL := m + 2 <? rank l in let bR := m + 2 <=? rank r in
      let gl := gw bL (gaps l) in
      t_bin (wrapw bL (gaps l) (pw l) f) (f gl) (tagb (bin_tag m j)) (f (S gl))
            (wrapw bR (gaps r) (pw r) (sh (2 + gl) f))
  | TUn j t' => t_un (bytes_of_string (un_tag j)) (f 0) (wrapw (2 <=? rank t') (gaps t') (pw t') (sh 1 f))
  | TIndex a i =>
      let ga := gw (1 <=? rank a) (gaps a) in
      t_index (wrapw (1 <=? rank a) (gaps a) (pw a) f) (f ga) (f (S ga)) (pw i (sh (2 + ga) f)) (f (2 + ga + gaps i))
  | TAccess a fld =>
      let ga := gw (1 <=? rank a) (gaps a) in
      t_access (wrapw (1 <=? rank a) (gaps a) (pw a) f) (f ga) (f (S ga)) fld
  | TCall fn args =>
      let gf := gw (1 <=? rank fn) (gaps fn) in
      match args with
      | [] => t_call0 (wrapw (1 <=? rank fn) (gaps fn) (pw fn) f) (f gf) (f (S gf))
      | a :: l =>
          t_call1 (wrapw (1 <=? rank fn) (gaps fn) (pw fn) f) (f gf) (f (S gf)) (pw a (sh (2 + gf) f))
                  (pw_args (fun x => pw x) l (sh (2 + gf + gaps a) f))
                  (f (2 + gf + gaps a + list_sum (map (fun x => 2 + gaps x) l)))
      end
  | TCond c y n =>
      let gc := gw (NL + 2 <=? rank c) (gaps c) in
      t_cond (wrapw (NL + 2 <=? rank c) (gaps c) (pw c) f) (f gc) (f (S gc)) (pw y (sh (2 + gc) f))
             (f (2 + gc + gaps y)) (f (3 + gc + gaps y)) (pw n (sh (4 + gc + gaps y) f))
  end.

(* with a single space everywhere this is the printer of MiluRoundtrip *)
Definition spaces : filler := fun _ => [32%N].

Lemma sh_spaces n : sh n spaces = spaces.
Proof. reflexivity. Qed.

Lemma wrapw_spaces b g p : wrapw b g p spaces = MiluRoundtrip.wrap b (p spaces).
Proof. destruct b; reflexivity. Qed.

Lemma pw_spaces : forall t, pw t spaces = MiluRoundtrip.print levels unary_tags t.
Proof.
  induction t using tree_ind'; cbn [pw MiluRoundtrip.print]; cbv zeta; rewrite ?sh_spaces, ?wrapw_spaces.
  - reflexivity.
  - reflexivity.
  - rewrite IHt1, IHt2. reflexivity.
  - rewrite IHt. reflexivity.
  - rewrite IHt1, IHt2. reflexivity.
  - rewrite IHt. reflexivity.
  - destruct H as [|a l Ha Hl]; rewrite ?sh_spaces, ?wrapw_spaces, IHt; [reflexivity|].
    rewrite Ha.
    assert (E : pw_args (fun x => pw x) l spaces = flat_map (fun x => MiluRoundtrip.t_argn (MiluRoundtrip.print levels unary_tags x)) l).
    { clear - Hl. induction Hl as [|x l Hx _ IH]; [reflexivity|].
      cbn [pw_args flat_map]. rewrite !sh_spaces, Hx, IH. reflexivity. }
    rewrite E. reflexivity.
  - rewrite IHt1, IHt2, IHt3. reflexivity.
Qed.


(* ---- the gaps are numbered 0 .. gaps t - 1 in printing order -------------------------------- *)

(* the tokens of the printed text, in order *)
Definition wrapt (b : bool) (l : list bytes) : list bytes := if b then @cons bytes [40%N] (l ++ @cons bytes [41%N] nil) else l.

Fixpoint toks (t : tree) : list bytes :=
  match t with
  | TAtom x => [x]
  | TInt ds => [ds]
  | TBin m j l r => wrapt (m + 2 <? rank l) (toks l) ++ @cons bytes (tagb (bin_tag m j)) (wrapt (m + 2 <=? rank r) (toks r))
  | TUn j t' => @cons bytes (bytes_of_string (un_tag j)) (wrapt (2 <=? rank t') (toks t'))
  | TIndex a i => wrapt (1 <=? rank a) (toks a) ++ @cons bytes [91%N] (toks i ++ @cons bytes [93%N] nil)
  | TAccess a fld => wrapt (1 <=? rank a) (toks a) ++ @cons bytes [46%N] (@cons bytes fld nil)
  | TCall fn args =>
      wrapt (1 <=? rank fn) (toks fn) ++ @cons bytes [40%N]
        (match args with
         | [] => @nil bytes
         | a :: l => toks a ++ flat_map (fun x => @cons bytes [44%N] (toks x)) l
         end ++ @cons bytes [41%N] nil)
  | TCond c y n => wrapt (NL + 2 <=? rank c) (toks c) ++ @cons bytes [63%N] (toks y ++ @cons bytes [58%N] (toks n))
  end.

Ltac feq := repeat (lazymatch goal with |- @eq nat _ _ => fail | _ => f_equal end); try lia.

(* f k, token, f (k+1), token, ... *)
Fixpoint weave_tl (l : list bytes) (f : filler) (k : nat) : bytes :=
  match l with
  | [] => []
  | tk :: l' => f k ++ tk ++ weave_tl l' f (S k)
  end.
(* token, f k, token, f (k+1), ..., token *)
Definition weave (l : list bytes) (f : filler) (k : nat) : bytes :=
  match l with
  | [] => []
  | tk :: l' => tk ++ weave_tl l' f k
  end.

Lemma weave_tl_app l1 l2 f : forall k, weave_tl (l1 ++ l2) f k = weave_tl l1 f k ++ weave_tl l2 f (k + List.length l1).
Proof.
  induction l1 as [|tk l1 IH]; intros k; cbn [app weave_tl List.length].
  - rewrite Nat.add_0_r. reflexivity.
  - rewrite IH. rewrite <- !app_assoc. feq.
Qed.

Lemma weave_app l1 l2 f k g : List.length l1 = S g -> weave (l1 ++ l2) f k = weave l1 f k ++ weave_tl l2 f (k + g).
Proof.
  intros L. destruct l1 as [|tk l1]; [discriminate|]. cbn [app weave]. rewrite weave_tl_app, <- app_assoc.
  cbn [List.length] in L. feq.
Qed.

Lemma weave_tl_weave l f k g : List.length l = S g -> weave_tl l f k = f k ++ weave l f (S k).
Proof. intros L. destruct l as [|tk l]; [discriminate|]. reflexivity. Qed.

Lemma wrapt_len b l g : List.length l = S g -> List.length (wrapt b l) = S (gw b g).
Proof. intros L. destruct b; cbn [wrapt gw List.length]; [|exact L]. rewrite app_length. cbn [List.length]. lia. Qed.

Lemma toks_len : forall t, List.length (toks t) = S (gaps t).
Proof.
  induction t using tree_ind'; cbn [toks gaps]; try reflexivity.
  - rewrite app_length. cbn [List.length]. rewrite (wrapt_len _ _ _ IHt1), (wrapt_len _ _ _ IHt2). lia.
  - cbn [List.length]. rewrite (wrapt_len _ _ _ IHt). lia.
  - rewrite app_length. cbn [List.length]. rewrite app_length. cbn [List.length]. rewrite (wrapt_len _ _ _ IHt1), IHt2. lia.
  - rewrite app_length. cbn [List.length]. rewrite (wrapt_len _ _ _ IHt). lia.
  - rewrite app_length. cbn [List.length]. rewrite app_length. cbn [List.length]. rewrite (wrapt_len _ _ _ IHt).
    destruct H as [|a l Ha Hl]; [cbn [List.length]; lia|].
    rewrite app_length, Ha.
    assert (E : List.length (flat_map (fun x => @cons bytes [44%N] (toks x)) l) = list_sum (map (fun x => 2 + gaps x) l)).
    { clear - Hl. induction Hl as [|x l Hx _ IH]; [reflexivity|].
      cbn [flat_map map list_sum fold_right List.length app]. rewrite app_length, Hx, IH. unfold list_sum. lia. }
    rewrite E. lia.
  - rewrite app_length. cbn [List.length]. rewrite app_length. cbn [List.length].
    rewrite (wrapt_len _ _ _ IHt1), IHt2, IHt3. lia.
Qed.

Lemma argtoks_len l :
  List.length (flat_map (fun x => @cons bytes [44%N] (toks x)) l) = list_sum (map (fun x => 2 + gaps x) l).
Proof.
  induction l as [|x l IH]; [reflexivity|].
  cbn [flat_map map list_sum fold_right List.length app]. rewrite app_length, toks_len, IH. unfold list_sum. lia.
Qed.

Definition weave_spec (t : tree) : Prop :=
  forall F f k, (forall j, F j = f (k + j)) -> pw t F = weave (toks t) f k.

Ltac sh_idx E := let j := fresh "j" in intros j; unfold sh; rewrite E; apply f_equal; lia.
Ltac fin_weave := unfold sh; repeat (first [rewrite <- app_assoc | progress cbn [app]]); feq.

Lemma wrapw_weave b t : weave_spec t -> forall F f k, (forall j, F j = f (k + j)) ->
  wrapw b (gaps t) (pw t) F = weave (wrapt b (toks t)) f k.
Proof.
  intros IH F f k E. destruct b; cbn [wrapw wrapt]; [|apply IH; exact E].
  unfold t_paren. rewrite (IH (sh 1 F) f (S k)) by sh_idx E. rewrite !E.
  cbn [weave]. rewrite weave_tl_app, (weave_tl_weave _ _ _ _ (toks_len t)), toks_len.
  cbn [weave_tl]. rewrite app_nil_r. fin_weave.
Qed.

Lemma pw_args_weave l : Forall weave_spec l -> forall F f k, (forall j, F j = f (k + j)) ->
  pw_args (fun x => pw x) l F = weave_tl (flat_map (fun x => @cons bytes [44%N] (toks x)) l) f k.
Proof.
  induction 1 as [|x l Hx _ IH]; intros F f k E; [reflexivity|].
  cbn [pw_args flat_map]. rewrite weave_tl_app. cbn [weave_tl List.length].
  rewrite (weave_tl_weave _ _ _ _ (toks_len x)), toks_len.
  rewrite (Hx (sh 2 F) f (S (S k))) by sh_idx E.
  rewrite (IH (sh (2 + gaps x) F) f (k + S (S (gaps x)))) by sh_idx E.
  unfold t_argn. rewrite !E. fin_weave.
Qed.

(* (2) the text is token 0, f 0, token 1, f 1, ..., f (gaps t - 1), token (gaps t): every gap has
   its own index, so every gap can receive an independently chosen filler *)
Theorem pw_weave : forall t, weave_spec t.
Proof.
  induction t using tree_ind'; intros F f k E; cbn [pw toks]; cbv zeta.
  - cbn [weave weave_tl]. rewrite ?app_nil_r. reflexivity.
  - cbn [weave weave_tl]. rewrite ?app_nil_r. reflexivity.
  - rewrite (wrapw_weave _ _ IHt1 F f k E).
    rewrite (wrapw_weave _ _ IHt2 (sh (2 + gw (m + 2 <? rank t1) (gaps t1)) F) f
               (k + 2 + gw (m + 2 <? rank t1) (gaps t1))) by sh_idx E.
    rewrite !E. rewrite (weave_app _ _ f k _ (wrapt_len _ _ _ (toks_len t1))).
    cbn [weave_tl]. rewrite (weave_tl_weave _ _ _ _ (wrapt_len _ _ _ (toks_len t2))).
    unfold t_bin. fin_weave.
  - rewrite (wrapw_weave _ _ IHt (sh 1 F) f (S k)) by sh_idx E.
    rewrite !E. cbn [weave]. rewrite (weave_tl_weave _ _ _ _ (wrapt_len _ _ _ (toks_len t))).
    unfold t_un. fin_weave.
  - rewrite (wrapw_weave _ _ IHt1 F f k E).
    rewrite (IHt2 (sh (2 + gw (1 <=? rank t1) (gaps t1)) F) f (k + 2 + gw (1 <=? rank t1) (gaps t1))) by sh_idx E.
    rewrite !E. rewrite (weave_app _ _ f k _ (wrapt_len _ _ _ (toks_len t1))).
    cbn [weave_tl]. rewrite weave_tl_app, (weave_tl_weave _ _ _ _ (toks_len t2)), toks_len.
    cbn [weave_tl]. rewrite ?app_nil_r. unfold t_index. fin_weave.
  - rewrite (wrapw_weave _ _ IHt F f k E).
    rewrite !E. rewrite (weave_app _ _ f k _ (wrapt_len _ _ _ (toks_len t))).
    cbn [weave_tl]. rewrite ?app_nil_r. unfold t_access. fin_weave.
  - rewrite (weave_app _ _ f k _ (wrapt_len _ _ _ (toks_len t))). cbn [weave_tl].
    destruct H as [|a l Ha Hl].
    + rewrite (wrapw_weave _ _ IHt F f k E). rewrite !E.
      cbn [app weave_tl]. rewrite ?app_nil_r. unfold t_call0. fin_weave.
    + rewrite (wrapw_weave _ _ IHt F f k E).
      rewrite (Ha (sh (2 + gw (1 <=? rank t) (gaps t)) F) f (k + 2 + gw (1 <=? rank t) (gaps t))) by sh_idx E.
      rewrite (pw_args_weave l Hl (sh (2 + gw (1 <=? rank t) (gaps t) + gaps a) F) f
                 (k + 2 + gw (1 <=? rank t) (gaps t) + gaps a)) by sh_idx E.
      rewrite !E. rewrite <- app_assoc. rewrite weave_tl_app, (weave_tl_weave _ _ _ _ (toks_len a)), toks_len.
      rewrite weave_tl_app. cbn [weave_tl]. rewrite ?app_nil_r.
      rewrite argtoks_len. unfold t_call1. fin_weave.
  - rewrite (wrapw_weave _ _ IHt1 F f k E).
    rewrite (IHt2 (sh (2 + gw (NL + 2 <=? rank t1) (gaps t1)) F) f (k + 2 + gw (NL + 2 <=? rank t1) (gaps t1))) by sh_idx E.
    rewrite (IHt3 (sh (4 + gw (NL + 2 <=? rank t1) (gaps t1) + gaps t2) F) f
               (k + 4 + gw (NL + 2 <=? rank t1) (gaps t1) + gaps t2)) by sh_idx E.
    rewrite !E. rewrite (weave_app _ _ f k _ (wrapt_len _ _ _ (toks_len t1))).
    cbn [weave_tl]. rewrite weave_tl_app, (weave_tl_weave _ _ _ _ (toks_len t2)), toks_len.
    cbn [weave_tl]. rewrite (weave_tl_weave _ _ _ _ (toks_len t3)).
    unfold t_cond. fin_weave.
Qed.

Corollary pw_tokens t f : pw t f = weave (toks t) f 0 /\ List.length (toks t) = S (gaps t).
Proof. split; [apply pw_weave; intros j; reflexivity|apply toks_len]. Qed.

(* only the fillers 0 .. gaps t - 1 matter, pointwise *)
Corollary pw_ext t f f' : (forall k, f k = f' k) -> pw t f = pw t f'.
Proof.
  intros E. rewrite (pw_weave t f f' 0) by (intros j; apply E). symmetry. apply pw_weave. intros j; reflexivity.
Qed.

(* fuel weights *)
Definition GP : nat := 2 * NL + 6.           (* extra weight of a parenthesis / bracket / call group *)
Definition A0 : nat := NL + 10.
Definition wpar (b : bool) (w : nat) : nat := if b then w + GP else w.

Fixpoint wt (t : tree) : nat :=
  match t with
  | TAtom _ | TInt _ => 1
  | TBin m j l r => wpar (m + 2 <? rank l) (wt l) + wpar (m + 2 <=? rank r) (wt r) + 1
  | TUn j t' => wpar (2 <=? rank t') (wt t') + 1
  | TIndex a i => wpar (1 <=? rank a) (wt a) + wt i + GP
  | TAccess a _ => wpar (1 <=? rank a) (wt a) + 1
  | TCall f args => wpar (1 <=? rank f) (wt f) + GP + list_sum (map (fun a => wt a + 1) args)
  | TCond c y n => wpar (NL + 2 <=? rank c) (wt c) + wt y + wt n + 2
  end.

Lemma wt_pos t : 1 <= wt t.
Proof. destruct t; cbn [wt]; unfold GP; lia. Qed.

(* ---- fuel bookkeeping at the semantic level --------------------------------------------- *)

Lemma sem_post w X e : Post (w + A0) w X e -> Un (w + A0 + 2) X e.
Proof. intros H. apply un_of_post in H. eapply Un_weaken; [|exact H]. lia. Qed.

Lemma sem_un_next0 w X e : Un (w + A0 + 2) X e -> Next 0 (w + A0 + 3 + 2 * 0) X e.
Proof. intros H. apply next0_of_un in H. eapply Next_weaken; [|exact H]. lia. Qed.

Lemma sem_next_rule w X e k : 1 <= w -> k < NL -> Next k (w + A0 + 3 + 2 * k) X e -> Rule k (w + A0 + 4 + 2 * k) w X e.
Proof. intros Hw Hk H. apply rule_of_next in H; [|exact Hk]. eapply Rule_weaken; [| |exact H]; lia. Qed.

Lemma sem_rule_next w X e k : S k < NL -> Rule k (w + A0 + 4 + 2 * k) w X e -> Next (S k) (w + A0 + 3 + 2 * S k) X e.
Proof. intros Hk H. apply next_of_rule in H; [|exact Hk]. eapply Next_weaken; [|exact H]. unfold A0. lia. Qed.

Lemma sem_un_rule w X e : 1 <= w -> Un (w + A0 + 2) X e -> forall k, k < NL ->
  Rule k (w + A0 + 4 + 2 * k) w X e.
Proof.
  intros Hw H. induction k as [|k IH]; intros Hk.
  - apply sem_next_rule; auto. apply sem_un_next0. exact H.
  - apply sem_next_rule; auto. apply sem_rule_next; auto. apply IH. lia.
Qed.

Lemma sem_un_next w X e m : 1 <= w -> m < NL -> Un (w + A0 + 2) X e -> Next m (w + A0 + 3 + 2 * m) X e.
Proof.
  intros Hw Hm H. destruct m as [|m]; [apply sem_un_next0; exact H|].
  apply sem_rule_next; auto. apply sem_un_rule; auto. lia.
Qed.

Lemma sem_rule_lift w X e j : 1 <= w -> Rule j (w + A0 + 4 + 2 * j) w X e ->
  forall k, j <= k -> k < NL -> Rule k (w + A0 + 4 + 2 * k) w X e.
Proof.
  intros Hw H k Hjk. induction Hjk as [|k Hjk IH]; intros Hk; [exact H|].
  apply sem_next_rule; auto. apply sem_rule_next; auto. apply IH. lia.
Qed.

Lemma sem_rule_op0 w X e : Rule (NL - 1) (w + A0 + 4 + 2 * (NL - 1)) w X e -> Op0 (w + A0 + 2 * NL + 4) X e.
Proof. intros H. apply op0_of_rule in H. eapply Op0_weaken; [|exact H]. unfold A0. lia. Qed.

Lemma sem_paren w X e b1 b2 : bl b1 -> bl b2 ->
  Op0 (w + A0 + 2 * NL + 4) X e -> Post (w + GP + A0) (w + GP) (t_paren b1 X b2) e.
Proof.
  intros B1 B2 H. apply (val_paren _ _ _ b1 b2 B1 B2) in H. apply post_of_val in H.
  eapply Post_weaken; [| |exact H]; unfold GP; lia.
Qed.

(* ---- the invariant proved by induction on trees ------------------------------------------ *)

(* the text X is a good printing of t *)
Definition GoodX (t : tree) (X : bytes) : Prop :=
  (rank t = 0 -> Post (wt t + A0) (wt t) X (denote t)) /\
  (rank t <= 1 -> Un (wt t + A0 + 2) X (denote t)) /\
  (forall k, k < NL -> rank t <= k + 2 -> Rule k (wt t + A0 + 4 + 2 * k) (wt t) X (denote t)) /\
  Op0 (wt t + A0 + 2 * NL + 4) X (denote t).

Definition Good (t : tree) : Prop := forall f, filler_ok f -> GoodX t (pw t f).

Lemma good_of_post t X : Post (wt t + A0) (wt t) X (denote t) -> GoodX t X.
Proof.
  intros H. pose proof (wt_pos t) as Hw. pose proof (sem_post _ _ _ H) as HU.
  pose proof (sem_un_rule _ _ _ Hw HU) as HR.
  split; [|split; [|split]]; auto. apply sem_rule_op0. apply HR. lia.
Qed.

Lemma good_of_un t X : 1 <= rank t -> Un (wt t + A0 + 2) X (denote t) -> GoodX t X.
Proof.
  intros Hr HU. pose proof (wt_pos t) as Hw.
  pose proof (sem_un_rule _ _ _ Hw HU) as HR.
  split; [|split; [|split]]; auto; try lia. apply sem_rule_op0. apply HR. lia.
Qed.

Lemma good_of_rule t X m : rank t = m + 2 -> m < NL ->
  Rule m (wt t + A0 + 4 + 2 * m) (wt t) X (denote t) -> GoodX t X.
Proof.
  intros Hr Hm HR. pose proof (wt_pos t) as Hw.
  pose proof (sem_rule_lift _ _ _ _ Hw HR) as HL.
  split; [|split; [|split]]; try lia.
  - intros k Hk Hrk. apply HL; lia.
  - apply sem_rule_op0. apply HL; lia.
Qed.

(* operands in context *)
Lemma good_paren t f : Good t -> filler_ok f ->
  Post (wt t + GP + A0) (wt t + GP) (t_paren (f 0) (pw t (sh 1 f)) (f (S (gaps t)))) (denote t).
Proof.
  intros G Hf. destruct (G (sh 1 f) (filler_sh f 1 Hf)) as (_ & _ & _ & H).
  apply sem_paren; auto with rtw.
Qed.

Lemma opd_post t f : Good t -> filler_ok f ->
  Post (wpar (1 <=? rank t) (wt t) + A0) (wpar (1 <=? rank t) (wt t))
       (wrapw (1 <=? rank t) (gaps t) (pw t) f) (denote t).
Proof.
  intros G Hf. destruct (Nat.leb_spec 1 (rank t)); cbn [wpar wrapw].
  - apply good_paren; assumption.
  - apply (G f Hf). lia.
Qed.

Lemma opd_un t f : Good t -> filler_ok f ->
  Un (wpar (2 <=? rank t) (wt t) + A0 + 2) (wrapw (2 <=? rank t) (gaps t) (pw t) f) (denote t).
Proof.
  intros G Hf. destruct (Nat.leb_spec 2 (rank t)); cbn [wpar wrapw].
  - apply sem_post. apply good_paren; assumption.
  - apply (G f Hf). lia.
Qed.

Lemma opd_left t m f : Good t -> filler_ok f -> m < NL ->
  Rule m (wpar (m + 2 <? rank t) (wt t) + A0 + 4 + 2 * m) (wpar (m + 2 <? rank t) (wt t))
       (wrapw (m + 2 <? rank t) (gaps t) (pw t) f) (denote t).
Proof.
  intros G Hf Hm. pose proof (wt_pos t) as Hw. destruct (Nat.ltb_spec (m + 2) (rank t)); cbn [wpar wrapw].
  - apply sem_un_rule; [lia| |exact Hm]. apply sem_post. apply good_paren; assumption.
  - apply (G f Hf); [exact Hm|lia].
Qed.

Lemma opd_right t m f : Good t -> filler_ok f -> m < NL ->
  Next m (wpar (m + 2 <=? rank t) (wt t) + A0 + 3 + 2 * m) (wrapw (m + 2 <=? rank t) (gaps t) (pw t) f) (denote t).
Proof.
  intros G Hf Hm. pose proof (wt_pos t) as Hw. destruct (Nat.leb_spec (m + 2) (rank t)); cbn [wpar wrapw].
  - apply sem_un_next; [lia|exact Hm|]. apply sem_post. apply good_paren; assumption.
  - destruct m as [|m].
    + apply sem_un_next0. apply (G f Hf). lia.
    + apply sem_rule_next; [exact Hm|]. apply (G f Hf); lia.
Qed.

Lemma opd_cond t f : Good t -> filler_ok f ->
  Rule (NL - 1) (wpar (NL + 2 <=? rank t) (wt t) + A0 + 4 + 2 * (NL - 1)) (wpar (NL + 2 <=? rank t) (wt t))
       (wrapw (NL + 2 <=? rank t) (gaps t) (pw t) f) (denote t).
Proof.
  intros G Hf. pose proof (wt_pos t) as Hw. destruct (Nat.leb_spec (NL + 2) (rank t)); cbn [wpar wrapw].
  - apply sem_un_rule; [lia| |lia]. apply sem_post. apply good_paren; assumption.
  - apply (G f Hf); lia.
Qed.

Lemma good_op0 t f : Good t -> filler_ok f -> Op0 (wt t + A0 + 2 * NL + 4) (pw t f) (denote t).
Proof. intros G Hf. apply (G f Hf). Qed.

Lemma Args_weaken C C' X es : C <= C' -> Args C X es -> Args C' X es.
Proof. intros L [S H]. split; [exact S|]. intros. apply H; [assumption|assumption|lia]. Qed.

Lemma args_good l : Forall Good l -> forall f, filler_ok f ->
  Args (list_sum (map (fun a => wt a + 1) l) + A0 + 2 * NL + 4)
       (pw_args (fun x => pw x) l f) (map denote l).
Proof.
  induction 1 as [|a l Ha Hl IH]; intros f Hf.
  - eapply Args_weaken; [|apply args_nil]. cbn. lia.
  - cbn [map pw_args list_sum fold_right].
    pose proof (good_op0 a (sh 2 f) Ha (filler_sh f 2 Hf)) as Ha'.
    specialize (IH (sh (2 + gaps a) f) (filler_sh f _ Hf)).
    eapply Args_weaken; [|apply (args_cons _ _ _ _ _ _ (f 0) (f 1) (filler_bl f 0 Hf) (filler_bl f 1 Hf) Ha' IH)].
    unfold list_sum. cbn [map fold_right]. lia.
Qed.

Lemma good_atom x : atom_ok x -> Good (TAtom x).
Proof.
  intros H f Hf. destruct x as [|b a]; [destruct H|]. destruct H as [Hb Ha].
  apply good_of_post. cbn [wt pw denote].
  eapply Post_weaken; [| |apply post_of_val; apply val_ident; eassumption]; unfold A0; lia.
Qed.

Lemma good_int ds : int_ok ds -> Good (TInt ds).
Proof.
  intros (Hne & Hd & Hv) f Hf. destruct ds as [|d ds]; [congruence|].
  apply good_of_post. cbn [wt pw denote].
  eapply Post_weaken; [| |apply post_of_val; apply val_int; eassumption]; unfold A0; lia.
Qed.

Lemma good_bin m j l r : m < NL -> j < List.length (lv_tags (lvl m)) -> Good l -> Good r -> Good (TBin m j l r).
Proof.
  intros Hm Hj Gl Gr f Hf.
  assert (Ht : In (bin_tag m j) (lv_tags (lvl m))) by (apply nth_In; exact Hj).
  destruct (tag_facts (lvl m) (bin_tag m j) (lvl_in m Hm) Ht) as (_ & _ & _ & name & Hn).
  assert (En : bin_name m j = name) by (unfold bin_name; rewrite Hn; reflexivity).
  apply (good_of_rule _ _ m); [reflexivity|exact Hm|].
  cbn [wt pw denote]. cbv zeta. rewrite En.
  eapply rule_bin; [apply Hf|apply Hf|exact Hm|exact Ht|exact Hn|apply opd_left; assumption
                   |apply opd_right; auto with rtw|lia|lia|lia].
Qed.

Lemma good_un j t : j < List.length unary_tags -> Good t -> Good (TUn j t).
Proof.
  intros Hj G f Hf.
  assert (Hu : In (un_tag j) unary_tags) by (apply nth_In; exact Hj).
  destruct (unary_facts (un_tag j) Hu) as (_ & _ & _ & name & Hn).
  assert (En : un_name j = name) by (unfold un_name; rewrite Hn; reflexivity).
  apply good_of_un; [cbn; lia|].
  cbn [wt pw denote]. rewrite En.
  eapply Un_weaken; [|apply (un_un _ _ _ _ _ (f 0) (filler_bl f 0 Hf) Hu Hn (opd_un t (sh 1 f) G (filler_sh f 1 Hf)))]. lia.
Qed.

Lemma good_index a i : Good a -> Good i -> Good (TIndex a i).
Proof.
  intros Ga Gi f Hf. apply good_of_post. cbn [wt pw denote]. cbv zeta.
  eapply post_index; [apply Hf|apply Hf|apply Hf|apply opd_post; assumption
                     |apply good_op0; auto with rtw| | |]; unfold GP; lia.
Qed.

Lemma good_access a fld : Good a -> field_ok fld -> Good (TAccess a fld).
Proof.
  intros Ga Hfl f Hf. destruct fld as [|b fl]; [destruct Hfl|]. destruct Hfl as [Hb Hfl].
  apply good_of_post. cbn [wt pw denote]. cbv zeta.
  eapply Post_weaken; [| |eapply post_access; [apply Hf|apply Hf|apply opd_post; assumption|exact Hb|exact Hfl|apply le_n]]; lia.
Qed.

Lemma good_call fn args : Good fn -> Forall Good args -> Good (TCall fn args).
Proof.
  intros Gf Ga f Hf. apply good_of_post. cbn [wt pw denote]. cbv zeta.
  destruct Ga as [|a l Ha Hl].
  - cbn [map list_sum fold_right].
    eapply post_call_nil; [apply Hf|apply Hf|apply opd_post; assumption| | |]; unfold GP, A0, list_sum; cbn [map fold_right]; lia.
  - cbn [map list_sum fold_right].
    eapply post_call_cons; [apply Hf|apply Hf|apply Hf|apply opd_post; assumption
                           |apply good_op0; auto with rtw|apply args_good; auto with rtw| | |];
      unfold GP, list_sum; cbn [map fold_right]; lia.
Qed.

Lemma good_cond c y n : Good c -> Good y -> Good n -> Good (TCond c y n).
Proof.
  intros Gc Gy Gn f Hf.
  split; [|split; [|split]]; try (cbn [rank]; intros; lia).
  cbn [wt pw denote]. cbv zeta.
  eapply Op0_weaken; [|apply op0_cond; [apply Hf|apply Hf|apply Hf|apply Hf|apply opd_cond; eassumption
                                        |apply good_op0; auto with rtw|apply good_op0; auto with rtw]].
  unfold A0. lia.
Qed.

Theorem all_good : forall t, wf t -> Good t.
Proof.
  induction t using tree_ind'; intros W.
  - apply good_atom. exact W.
  - apply good_int. exact W.
  - destruct W as (Hm & Hj & Wl & Wr). apply good_bin; auto.
  - destruct W as (Hj & Wt). apply good_un; auto.
  - destruct W as (Wa & Wi). apply good_index; auto.
  - destruct W as (Wa & Wf). apply good_access; auto.
  - apply wf_call_forall in W. destruct W as (Wf & Wa). apply good_call; auto.
    clear - H Wa. induction H as [|a l Ha Hl IH]; constructor.
    + apply Ha. inversion Wa; assumption.
    + apply IH. inversion Wa; assumption.
  - destruct W as (Wc & Wy & Wn). apply good_cond; auto.
Qed.


(* ---- the fuel supplied by `parse` is enough ---------------------------------------------- *)

Hypothesis HNL : NL <= 38.

Lemma wpar_len b w g (p : filler -> bytes) : (forall f, filler_ok f -> w <= 64 * List.length (p f)) ->
  forall f, filler_ok f -> wpar b w <= 64 * List.length (wrapw b g p f).
Proof.
  intros H f Hf. destruct b; cbn [wpar wrapw]; [|apply H; exact Hf]. unfold t_paren, GP.
  specialize (H (sh 1 f) (filler_sh f 1 Hf)).
  cbn [List.length]. rewrite !app_length. cbn [List.length]. lia.
Qed.

Ltac flen f Hf :=
  repeat match goal with
  | |- context [List.length (f ?k)] =>
    lazymatch goal with
    | _ : 1 <= List.length (f k) |- _ => fail
    | _ => pose proof (filler_len f k Hf)
    end
  end.

Ltac lens := repeat (first [rewrite app_length | progress cbn [List.length]]).

Lemma wt_len : forall t, wf t -> forall f, filler_ok f -> wt t <= 64 * List.length (pw t f).
Proof.
  induction t using tree_ind'; intros W f Hf; cbn [wt pw]; cbv zeta.
  - destruct x; [destruct W|]. cbn [List.length]. lia.
  - destruct W as (Hne & _). destruct ds; [congruence|]. cbn [List.length]. lia.
  - destruct W as (Hm & Hj & Wl & Wr).
    pose proof (wpar_len (m + 2 <? rank t1) _ (gaps t1) _ (IHt1 Wl) f Hf).
    pose proof (wpar_len (m + 2 <=? rank t2) _ (gaps t2) _ (IHt2 Wr) _ (filler_sh f (2 + gw (m + 2 <? rank t1) (gaps t1)) Hf)).
    unfold t_bin. lens. flen f Hf. lia.
  - destruct W as (Hj & Wt). pose proof (wpar_len (2 <=? rank t) _ (gaps t) _ (IHt Wt) _ (filler_sh f 1 Hf)).
    unfold t_un. lens. flen f Hf. lia.
  - destruct W as (Wa & Wi). pose proof (wpar_len (1 <=? rank t1) _ (gaps t1) _ (IHt1 Wa) f Hf).
    pose proof (IHt2 Wi _ (filler_sh f (2 + gw (1 <=? rank t1) (gaps t1)) Hf)).
    unfold t_index, GP. lens.
    flen f Hf. lia.
  - destruct W as (Wa & Wf). pose proof (wpar_len (1 <=? rank t) _ (gaps t) _ (IHt Wa) f Hf).
    unfold t_access. lens. flen f Hf. lia.
  - apply wf_call_forall in W. destruct W as (Wf & Wa).
    pose proof (wpar_len (1 <=? rank t) _ (gaps t) _ (IHt Wf) f Hf) as Hfn.
    assert (L : forall l, Forall (fun t => wf t -> forall f, filler_ok f -> wt t <= 64 * List.length (pw t f)) l ->
                Forall wf l -> forall f, filler_ok f ->
                list_sum (map (fun a => wt a + 1) l) <= 64 * List.length (pw_args (fun x => pw x) l f)).
    { clear. induction 1 as [|a l Ha Hl IH]; intros Wl f Hf; [cbn; lia|].
      inversion Wl; subst. unfold list_sum in *. cbn [map fold_right pw_args]. unfold t_argn at 1.
      lens.
      specialize (Ha H1 _ (filler_sh f 2 Hf)). specialize (IH H2 _ (filler_sh f (2 + gaps a) Hf)). flen f Hf. lia. }
    destruct H as [|a l Ha Hl].
    + unfold t_call0, GP, list_sum. rewrite !app_length. cbn [List.length map fold_right].
      lens. flen f Hf. lia.
    + inversion Wa; subst.
      specialize (L l Hl H2 _ (filler_sh f (2 + gw (1 <=? rank t) (gaps t) + gaps a) Hf)).
      specialize (Ha H1 _ (filler_sh f (2 + gw (1 <=? rank t) (gaps t)) Hf)).
      unfold t_call1, GP, list_sum in *. cbn [map fold_right].
      lens. flen f Hf. lia.
  - destruct W as (Wc & Wy & Wn). pose proof (wpar_len (NL + 2 <=? rank t1) _ (gaps t1) _ (IHt1 Wc) f Hf).
    pose proof (IHt2 Wy _ (filler_sh f (2 + gw (NL + 2 <=? rank t1) (gaps t1)) Hf)).
    pose proof (IHt3 Wn _ (filler_sh f (4 + gw (NL + 2 <=? rank t1) (gaps t1) + gaps t2) Hf)).
    unfold t_cond. lens. flen f Hf. lia.
Qed.

Definition fuel_bound (t : tree) : nat := wt t + 3 * NL + 14.

Theorem roundtrip_ws_fuel_generic t f fl : wf t -> filler_ok fl -> fuel_bound t <= f ->
  parse_with_fuel levels parse2_table parse1_table unary_tags top_rule cond_rule f (pw t fl) = POk (denote t) [].
Proof.
  intros W Hfl Hf. destruct (all_good t W fl Hfl) as (_ & _ & _ & [_ H]).
  assert (E : p_op0' f (pw t fl ++ []) = POk (denote t) []).
  { apply H; [left; reflexivity|]. unfold fuel_bound, A0 in *. lia. }
  rewrite app_nil_r in E. unfold parse_with_fuel. rewrite E. reflexivity.
Qed.

Theorem roundtrip_ws_generic t fl : wf t -> filler_ok fl ->
  parse levels parse2_table parse1_table unary_tags top_rule cond_rule (pw t fl) = POk (denote t) [].
Proof.
  intros W Hfl. unfold parse. apply roundtrip_ws_fuel_generic; [exact W|exact Hfl|].
  pose proof (wt_len t W fl Hfl). unfold fuel_bound. lia.
Qed.

End Comb.

(* ========================================================================================= *)
(* Instance: the ladder extracted from milu/src/parser.rs                                     *)
(* ========================================================================================= *)

From RP.Gen Require Import Gen_ladder.

(* m_print_ws f t: m_print t with the k-th token gap (in printing order) filled with f k *)
Definition m_print_ws (f : filler) (t : tree) : bytes := pw levels unary_tags t f.
Definition m_gaps (t : tree) : nat := gaps levels t.

Lemma ladder_tags_ok_w : tags_ok levels parse2_table = true.
Proof. vm_compute. reflexivity. Qed.
Lemma ladder_stop_ok_w : stop_ok levels = true.
Proof. vm_compute. reflexivity. Qed.
Lemma ladder_unary_ok_w : unary_ok parse1_table unary_tags = true.
Proof. vm_compute. reflexivity. Qed.

(* (1) with a single space in every gap this is exactly the printer of MiluRoundtrip *)
Lemma m_print_ws_spaces : forall t, m_print_ws (fun _ => [32]) t = m_print t.
Proof. exact (pw_spaces levels unary_tags). Qed.


(* (2) every gap has its own filler: the printed text is
       token 0, f 0, token 1, f 1, ..., f (m_gaps t - 1), token (m_gaps t)
   where m_toks t is the token list of m_print t (weave is defined above, independently of the printer) *)
Definition m_toks (t : tree) : list bytes := toks levels unary_tags t.

Theorem m_print_ws_tokens : forall f t,
  m_print_ws f t = weave (m_toks t) f 0 /\ List.length (m_toks t) = S (m_gaps t).
Proof. intros f t. exact (pw_tokens levels unary_tags ladder_pos t f). Qed.

Corollary m_print_ws_ext : forall f g t, (forall k, f k = g k) -> m_print_ws f t = m_print_ws g t.
Proof. intros f g t E. exact (pw_ext levels unary_tags ladder_pos t f g E). Qed.

Example ex_toks : m_toks (TBin 1 0 (TAtom [97]) (TCall (TAtom [98]) [TAtom [99]; TAtom [100]]))
  = [[97]; [43]; [98]; [40]; [99]; [44]; [100]; [41]].                    (* a + b ( c , d ) *)
Proof. reflexivity. Qed.

(* With at least m_fuel_bound t = wt t + 47 units of fuel: the SAME tree-dependent bound as
   MiluRoundtrip.roundtrip_fuel; the fillers only make the input longer. *)
Theorem roundtrip_ws_fuel : forall f t n, m_wf t -> filler_ok f -> (m_fuel_bound t <= n)%nat ->
  parse_with_fuel levels parse2_table parse1_table unary_tags MiluDoc.top_rule ternary_cond_rule n (m_print_ws f t)
  = POk (m_denote t) [].
Proof.
  intros f t n W Hf Hn.
  exact (roundtrip_ws_fuel_generic levels parse2_table parse1_table unary_tags
           MiluDoc.top_rule ternary_cond_rule "op_7"%string
           ladder_find eq_refl ladder_next eq_refl ladder_pos eq_refl eq_refl
           ladder_tags_ok_w ladder_stop_ok_w ladder_unary_ok_w ladder_small t n f W Hf Hn).
Qed.

(* MAIN THEOREM: arbitrary non-empty closed blanks (white space, `# ... newline`, `/* ... */`)
   between the tokens, with the fuel that `parse` itself supplies. *)
Theorem roundtrip_ws : forall f t, m_wf t -> filler_ok f ->
  parse levels parse2_table parse1_table unary_tags MiluDoc.top_rule ternary_cond_rule (m_print_ws f t)
  = POk (m_denote t) [].
Proof.
  intros f t W Hf.
  exact (roundtrip_ws_generic levels parse2_table parse1_table unary_tags
           MiluDoc.top_rule ternary_cond_rule "op_7"%string
           ladder_find eq_refl ladder_next eq_refl ladder_pos eq_refl eq_refl
           ladder_tags_ok_w ladder_stop_ok_w ladder_unary_ok_w ladder_small t f W Hf).
Qed.

(* "Whitespace, line breaks and comments between tokens never change the result." *)
Corollary blank_invariance : forall f g t, m_wf t -> filler_ok f -> filler_ok g ->
  parse levels parse2_table parse1_table unary_tags MiluDoc.top_rule ternary_cond_rule (m_print_ws f t) =
  parse levels parse2_table parse1_table unary_tags MiluDoc.top_rule ternary_cond_rule (m_print_ws g t).
Proof. intros f g t W Hf Hg. rewrite !roundtrip_ws by assumption. reflexivity. Qed.

Corollary blank_invariance_print : forall f t, m_wf t -> filler_ok f ->
  parse levels parse2_table parse1_table unary_tags MiluDoc.top_rule ternary_cond_rule (m_print_ws f t) =
  parse levels parse2_table parse1_table unary_tags MiluDoc.top_rule ternary_cond_rule (m_print t).
Proof. intros f t W Hf. rewrite roundtrip_ws, roundtrip by assumption. reflexivity. Qed.

(* ---- non-vacuity ------------------------------------------------------------------------- *)

(* gap 0: the comment `/* c */`, gap 1: the line comment `# x` with its newline, then: newline, tab,
   `/**/`, `#` newline, cyclically *)
Definition ex_filler : filler := fun k =>
  match k with
  | O => [47; 42; 32; 99; 32; 42; 47]
  | S O => [35; 32; 120; 10]
  | S (S k') =>
      match Nat.modulo k' 4%nat with
      | O => [10] | S O => [9; 32] | S (S O) => [47; 42; 42; 47] | _ => [35; 10]
      end
  end.

Lemma ex_filler_ok : filler_ok ex_filler.
Proof.
  intros k. unfold ex_filler. destruct k as [|[|k]].
  - split; [|discriminate]. apply (blank_block [32; 99; 32] []); [reflexivity|constructor].
  - split; [|discriminate]. apply (blank_hash [32; 120] 10 []); [reflexivity|reflexivity|constructor].
  - destruct (Nat.modulo k 4) as [|[|[|m]]]; (split; [|discriminate]).
    + apply blank_ws; [reflexivity|constructor].
    + apply blank_ws; [reflexivity|]. apply blank_ws; [reflexivity|constructor].
    + apply (blank_block [] []); [reflexivity|constructor].
    + apply (blank_hash [] 10 []); [reflexivity|reflexivity|constructor].
Qed.

(* a/* c */+# x<newline>b *)
Definition ex_small : tree := TBin 1 0 (TAtom [97]) (TAtom [98]).

Example ex_small_text :
  m_print_ws ex_filler ex_small = [97; 47; 42; 32; 99; 32; 42; 47; 43; 35; 32; 120; 10; 98].
Proof. reflexivity. Qed.

Example ex_small_parses :
  parse levels parse2_table parse1_table unary_tags MiluDoc.top_rule ternary_cond_rule (m_print_ws ex_filler ex_small)
  = POk (op2 "Plus" (EId [97]) (EId [98])) [].
Proof. vm_compute. reflexivity. Qed.

Example ex_small_by_theorem :
  parse levels parse2_table parse1_table unary_tags MiluDoc.top_rule ternary_cond_rule (m_print_ws ex_filler ex_small)
  = POk (m_denote ex_small) [].
Proof.
  apply roundtrip_ws; [|exact ex_filler_ok].
  unfold m_wf, ex_small. cbn. repeat split; try reflexivity; lia.
Qed.

(* the tree of MiluRoundtrip.wf_example ( - a [ a + 12 ] . xy ( a , a ? b : c , b ( ) ) and w, 27 gaps ) *)
Definition ex_big : tree :=
  let a := TAtom [97] in let b := TAtom [98] in let c := TAtom [99] in
  TBin 8 1 (TCall (TAccess (TIndex (TUn 2 a) (TBin 1 0 a (TNum 12))) [120; 121])
                  [a; TCond a b c; TCall b []]) (TAtom [119]).

Example ex_big_parses :
  parse levels parse2_table parse1_table unary_tags MiluDoc.top_rule ternary_cond_rule (m_print_ws ex_filler ex_big)
  = POk (m_denote ex_big) [].
Proof. vm_compute. reflexivity. Qed.

Example ex_big_by_theorem :
  parse levels parse2_table parse1_table unary_tags MiluDoc.top_rule ternary_cond_rule (m_print_ws ex_filler ex_big)
  = POk (m_denote ex_big) [].
Proof. apply roundtrip_ws; [exact wf_example|exact ex_filler_ok]. Qed.

Print Assumptions m_print_ws_spaces.
Print Assumptions m_print_ws_tokens.
Print Assumptions roundtrip_ws_fuel.
Print Assumptions roundtrip_ws.
Print Assumptions blank_invariance.
