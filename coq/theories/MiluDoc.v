(* The documented operator table (milu/readme.md) against the parser model instantiated with the
   ladder extracted from milu/src/parser.rs: finite checks, each decided by evaluation of the
   model inside Coq. *)
From RP Require Import Base Target MiluSyntax MiluParser.
From RP.Gen Require Import Gen_ladder.
From Coq Require Import ZArith String.
Local Open Scope string_scope.

(* what each documented operator means (independent of the parser's own tables) *)
Definition doc_semantics : list (string * string) := [
  (".", "Access"); ("*", "Multiply"); ("/", "Divide"); ("%", "Mod"); ("+", "Plus"); ("-", "Minus");
  ("<<", "ShiftLeft"); (">>", "ShiftRight"); (">>>", "ShiftRightUnsigned");
  ("<", "Lesser"); ("<=", "LesserOrEqual"); (">", "Greater"); (">=", "GreaterOrEqual");
  ("==", "Equal"); ("!=", "NotEqual"); ("=~", "Like"); ("!~", "NotLike"); ("_:", "IsMemberOf");
  ("&", "BitAnd"); ("^", "BitXor"); ("|", "BitOr"); ("&&", "And"); ("and", "And");
  ("^^", "Xor"); ("xor", "Xor"); ("||", "Or"); ("or", "Or") ].
Definition doc_unary_semantics : list (string * string) := [ ("!", "Not"); ("~", "BitNot"); ("-", "Negative") ].

Definition sem (o : string) : string := match assoc_str o doc_semantics with Some n => n | None => "?" end.
Definition usem (o : string) : string := match assoc_str o doc_unary_semantics with Some n => n | None => "?" end.

(* ---- decidable equality of syntax trees ----------------------------------------------- *)

Fixpoint bytes_eq (a b : bytes) : bool :=
  match a, b with
  | [], [] => true
  | x :: a', y :: b' => (x =? y)%N && bytes_eq a' b'
  | _, _ => false
  end.

Fixpoint expr_eqb (a b : expr) {struct a} : bool :=
  let fix list_eqb (l1 l2 : list expr) {struct l1} : bool :=
    match l1, l2 with
    | [], [] => true
    | x :: r1, y :: r2 => expr_eqb x y && list_eqb r1 r2
    | _, _ => false
    end in
  match a, b with
  | EInt x, EInt y => Z.eqb x y
  | EBool x, EBool y => Bool.eqb x y
  | EStr x, EStr y => bytes_eq x y
  | EId x, EId y => bytes_eq x y
  | EArr x, EArr y => list_eqb x y
  | ETup x, ETup y => list_eqb x y
  | ENat x, ENat y => String.eqb x y
  | ECall f x, ECall g y => expr_eqb f g && list_eqb x y
  | _, _ => false
  end.

(* ---- the parser under test ------------------------------------------------------------ *)

Definition top_rule : string := List.last op0_alternatives "".
Definition P (src : string) : pres expr :=
  parse levels parse2_table parse1_table unary_tags top_rule ternary_cond_rule (bytes_of_string src).

Definition parses_to (src : string) (e : expr) : bool :=
  match P src with POk e' [] => expr_eqb e' e | _ => false end.

Definition va := EId (bytes_of_string "a").
Definition vb := EId (bytes_of_string "b").
Definition vc := EId (bytes_of_string "c").
Definition vd := EId (bytes_of_string "d").
Definition ve := EId (bytes_of_string "e").

Definition sp (s : string) : string := " " ++ s ++ " ".

(* every documented binary operator, alone, with each documented spelling *)
Definition check_single (d : N * string * string) : bool :=
  let '(_, o, _) := d in parses_to ("a" ++ sp o ++ "b") (op2 (sem o) va vb).

(* every ordered pair of binary operators: precedence, and left associativity on ties *)
Definition check_pair (d1 d2 : N * string * string) : bool :=
  let '(p1, o1, _) := d1 in
  let '(p2, o2, _) := d2 in
  parses_to ("a" ++ sp o1 ++ "b" ++ sp o2 ++ "c")
            (if (p2 <=? p1)%N then op2 (sem o2) (op2 (sem o1) va vb) vc
             else op2 (sem o1) va (op2 (sem o2) vb vc)).

(* three operators *)
Definition check_triple (d1 d2 d3 : N * string * string) : bool :=
  let '(p1, o1, _) := d1 in
  let '(p2, o2, _) := d2 in
  let '(p3, o3, _) := d3 in
  let n1 := sem o1 in let n2 := sem o2 in let n3 := sem o3 in
  let expected :=
    if (p2 <=? p1)%N then
      (* (a o1 b) o2 c o3 d *)
      if (p3 <=? p2)%N then op2 n3 (op2 n2 (op2 n1 va vb) vc) vd
      else op2 n2 (op2 n1 va vb) (op2 n3 vc vd)
    else
      (* a o1 (b o2 c ...) *)
      if (p3 <=? p2)%N then
        if (p3 <=? p1)%N then op2 n3 (op2 n1 va (op2 n2 vb vc)) vd
        else op2 n1 va (op2 n3 (op2 n2 vb vc) vd)
      else op2 n1 va (op2 n2 vb (op2 n3 vc vd)) in
  parses_to ("a" ++ sp o1 ++ "b" ++ sp o2 ++ "c" ++ sp o3 ++ "d") expected.

Definition no_dot (l : list (N * string * string)) := filter (fun d => negb (String.eqb (snd (fst d)) ".")) l.

(* one representative spelling per documented precedence (for the triples) *)
Fixpoint reps (l : list (N * string * string)) (seen : list N) : list (N * string * string) :=
  match l with
  | [] => []
  | (p, o, a) :: r => if existsb (N.eqb p) seen then reps r seen else (p, o, a) :: reps r (p :: seen)
  end.

(* unary operators bind tighter than every binary one and nest right to left; postfix binds
   tighter than unary *)
Definition check_unary (u : N * string * string) (d : N * string * string) : bool :=
  let '(_, uo, _) := u in
  let '(_, o, _) := d in
  parses_to (uo ++ " a" ++ sp o ++ "b") (op2 (sem o) (op1 (usem uo) va) vb) &&
  parses_to ("a" ++ sp o ++ uo ++ " b") (op2 (sem o) va (op1 (usem uo) vb)).

Definition check_unary_chain (u1 u2 : N * string * string) : bool :=
  let '(_, o1, _) := u1 in
  let '(_, o2, _) := u2 in
  parses_to (o1 ++ " " ++ o2 ++ " a") (op1 (usem o1) (op1 (usem o2) va)) &&
  parses_to (o1 ++ " a [ b ]") (op1 (usem o1) (op2 "Index" va vb)) &&
  parses_to (o1 ++ " a . b") (op1 (usem o1) (op2 "Access" va vb)) &&
  parses_to (o1 ++ " a ( b )") (op1 (usem o1) (ECall va [vb])).

Definition check_postfix (d : N * string * string) : bool :=
  let '(_, o, _) := d in
  parses_to ("a [ b ]" ++ sp o ++ "c") (op2 (sem o) (op2 "Index" va vb) vc) &&
  parses_to ("a" ++ sp o ++ "b [ c ]") (op2 (sem o) va (op2 "Index" vb vc)) &&
  parses_to ("a" ++ sp o ++ "b ( c )") (op2 (sem o) va (ECall vb [vc])) &&
  parses_to ("a" ++ sp o ++ "b . c") (op2 (sem o) va (op2 "Access" vb vc)).

Definition check_postfix_chain : bool :=
  parses_to "a ( b ) . c [ d ]" (op2 "Index" (op2 "Access" (ECall va [vb]) vc) vd) &&
  parses_to "a [ b ] ( c ) . d" (op2 "Access" (ECall (op2 "Index" va vb) [vc]) vd).

(* conditional and scope forms sit below every binary operator; ?: nests to the right *)
Definition check_level0 (d : N * string * string) : bool :=
  let '(_, o, _) := d in
  parses_to ("a" ++ sp o ++ "b ? c : d") (op3 "If" (op2 (sem o) va vb) vc vd) &&
  parses_to ("a ? b : c" ++ sp o ++ "d") (op3 "If" va vb (op2 (sem o) vc vd)) &&
  parses_to ("if a then b else c" ++ sp o ++ "d") (op3 "If" va vb (op2 (sem o) vc vd)) &&
  parses_to ("if a" ++ sp o ++ "b then c else d") (op3 "If" (op2 (sem o) va vb) vc vd) &&
  parses_to ("let x = a" ++ sp o ++ "b in x" ++ sp o ++ "c")
            (op2 "Scope" (EArr [ETup [EId (bytes_of_string "x"); op2 (sem o) va vb]])
                 (op2 (sem o) (EId (bytes_of_string "x")) vc)).

Definition check_level0_nest : bool :=
  parses_to "a ? b : c ? d : e" (op3 "If" va vb (op3 "If" vc vd ve)) &&
  parses_to "a ? b ? c : d : e" (op3 "If" va (op3 "If" vb vc vd) ve) &&
  parses_to "( a ? b : c ) ? d : e" (op3 "If" (op3 "If" va vb vc) vd ve) &&
  parses_to "( a )" va && parses_to "( a + b ) * c" (op2 "Multiply" (op2 "Plus" va vb) vc).

(* ---- tag discipline of the ladder ----------------------------------------------------- *)

Fixpoint is_prefix (a b : bytes) : bool :=
  match a, b with
  | [], _ => true
  | x :: a', y :: b' => (lower_b x =? lower_b y)%N && is_prefix a' b'
  | _, [] => false
  end.

(* (a) inside one level no earlier tag is a prefix of a later one (ordered choice would make the
   later one unreachable) *)
Fixpoint ordered_ok (tags : list (string * bool)) : bool :=
  match tags with
  | [] => true
  | (t, _) :: rest =>
      forallb (fun t2 => negb (is_prefix (bytes_of_string t) (bytes_of_string (fst t2)))) rest && ordered_ok rest
  end.

(* characters that can begin an operand (after blanks) *)
Definition operand_start (c : N) : bool :=
  is_alnum c || (c =? 95)%N || (c =? 34)%N || (c =? 96)%N || (c =? 40)%N || (c =? 91)%N ||
  (c =? 33)%N || (c =? 126)%N || (c =? 45)%N || is_space c || (c =? 35)%N || (c =? 47)%N.

(* (b) a tag of a tighter level that is a proper prefix of a tag of a looser level must leave a
   character that cannot start an operand, so that the tighter level's many0 backtracks *)
Fixpoint tighter_levels (name : string) (fuel : nat) : list level :=
  match fuel with
  | O => []
  | S f => match find (fun l => String.eqb (lv_name l) name) levels with
           | None => []
           | Some l => l :: tighter_levels (lv_next l) f
           end
  end.

Definition cross_ok (loose : level) : bool :=
  forallb (fun tight =>
    forallb (fun tt =>
      forallb (fun lt =>
        let tb := bytes_of_string (fst tt) in
        let lb := bytes_of_string (fst lt) in
        if is_prefix tb lb && negb (List.length tb =? List.length lb)%nat
        then negb (operand_start (nth (List.length tb) lb 0%N)) else true)
      (lv_tags loose))
    (lv_tags tight))
  (tighter_levels (lv_next loose) (List.length levels)).

Definition every_tag_mapped : bool :=
  forallb (fun l => forallb (fun t =>
    match assoc_str (string_of_bytes (map lower_b (bytes_of_string (fst t)))) parse2_table with
    | Some _ => true | None => false end) (lv_tags l)) levels &&
  forallb (fun t => match assoc_str t parse1_table with Some _ => true | None => false end) unary_tags.

(* every documented binary operator is a tag of some level *)
Definition documented_present : bool :=
  forallb (fun d => existsb (fun l => existsb (fun t => String.eqb (fst t) (snd (fst d))) (lv_tags l)) levels)
          (no_dot doc_binary) &&
  forallb (fun d => existsb (String.eqb (snd (fst d))) unary_tags) doc_unary.

(* ---- blanks ---------------------------------------------------------------------------- *)

(* fillers: any mix of white space and comments (every # comment closed by its newline) *)
Definition fillers : list string :=
  [" "; "  "; String (Ascii.ascii_of_nat 10) ""; String (Ascii.ascii_of_nat 9) " ";
   " /* c */ "; "/**/ "; " # c" ++ String (Ascii.ascii_of_nat 10) ""; 
   " /* a */ /* b */ # c" ++ String (Ascii.ascii_of_nat 13) (String (Ascii.ascii_of_nat 10) " ");
   "#" ++ String (Ascii.ascii_of_nat 10) ""].

Definition check_filler (f : string) (d : N * string * string) : bool :=
  let '(_, o, _) := d in
  parses_to (f ++ "a" ++ f ++ o ++ f ++ "b" ++ f ++ o ++ f ++ "c" ++ " ") (op2 (sem o) (op2 (sem o) va vb) vc) &&
  parses_to (f ++ "if" ++ f ++ "a" ++ f ++ "then" ++ f ++ "b" ++ f ++ "else" ++ f ++ "c") (op3 "If" va vb vc) &&
  parses_to (f ++ "a" ++ f ++ "?" ++ f ++ "b" ++ f ++ ":" ++ f ++ "c") (op3 "If" va vb vc) &&
  parses_to (f ++ "a" ++ f ++ "[" ++ f ++ "b" ++ f ++ "]" ++ f ++ "(" ++ f ++ "c" ++ f ++ "," ++ f ++ "d" ++ f ++ ")" ++ f ++ "." ++ f ++ "e")
            (op2 "Access" (ECall (op2 "Index" va vb) [vc; vd]) ve) &&
  parses_to (f ++ "!" ++ f ++ "-" ++ f ++ "(" ++ f ++ "a" ++ f ++ ")") (op1 "Not" (op1 "Negative" va)) &&
  parses_to (f ++ "let" ++ f ++ "x" ++ f ++ "=" ++ f ++ "a" ++ f ++ ";" ++ f ++ "in" ++ f ++ "[" ++ f ++ "x" ++ f ++ "," ++ f ++ "]")
            (op2 "Scope" (EArr [ETup [EId (bytes_of_string "x"); va]]) (EArr [EId (bytes_of_string "x")])).
