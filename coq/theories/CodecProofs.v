(* Strictness (hence truncation safety) of every stream decoder, and the frame reader's
   independence from segmentation. *)
From RP Require Import Base Stream StreamProofs Target Socks Http Frames.

Ltac strict_step :=
  first
    [ apply strict_bind | apply s_ret | apply s_fail | apply s_crash | apply s_u8
    | apply s_exact | apply s_write | intro
    | match goal with |- strict (if ?c then _ else _) => destruct c end
    | match goal with |- strict (match ?x with _ => _ end) => destruct x end ].
Ltac strict_tac := repeat strict_step.

Lemma strict_read_u8 : strict read_u8.
Proof. unfold read_u8. strict_tac. Qed.
Lemma strict_read_exact n : strict (read_exact n).
Proof. unfold read_exact. strict_tac. Qed.
Lemma strict_read_u16 : strict read_u16.
Proof. unfold read_u16. strict_tac. Qed.
Lemma strict_read_u32 : strict read_u32.
Proof. unfold read_u32. strict_tac. Qed.
#[export] Hint Resolve strict_read_u8 strict_read_exact strict_read_u16 strict_read_u32 : strict.

Lemma strict_rls : strict read_length_and_string.
Proof. unfold read_length_and_string. strict_tac; auto with strict. Qed.

Lemma strict_rnts : strict read_null_terminated_string.
Proof.
  unfold read_null_terminated_string. apply s_until.
  - intros bs. destruct (MAX_CSTRING <? len bs); constructor.
  - intros bs. destruct (MAX_CSTRING <? len bs); eexists; reflexivity.
Qed.
#[export] Hint Resolve strict_rls strict_rnts : strict.

Lemma strict_auth_v5_server m : strict (auth_v5_server m).
Proof. unfold auth_v5_server. strict_tac; auto with strict. Qed.

Lemma strict_read_addr_v5 : strict read_addr_v5.
Proof. unfold read_addr_v5. strict_tac; auto with strict. Qed.
#[export] Hint Resolve strict_auth_v5_server strict_read_addr_v5 : strict.

Lemma strict_read_req_v5 required : strict (read_req_v5 required).
Proof. unfold read_req_v5. strict_tac; auto with strict. Qed.

Lemma strict_read_req_v4 : strict read_req_v4.
Proof. unfold read_req_v4. strict_tac; auto with strict. Qed.

Theorem strict_read_request required : strict (read_request required).
Proof.
  unfold read_request. strict_tac; auto using strict_read_req_v4, strict_read_req_v5 with strict.
Qed.

Theorem strict_read_response : strict read_response.
Proof. unfold read_response. strict_tac; auto with strict. Qed.

Lemma strict_read_line : strict read_line.
Proof.
  unfold read_line. apply s_until.
  - intros bs. destruct (MAX_LINE <? len bs); [constructor|]. destruct (negb (utf8_valid bs)); constructor.
  - intros bs. destruct (MAX_LINE <? len bs); [eexists; reflexivity|].
    destruct (negb (utf8_valid bs)); eexists; reflexivity.
Qed.
#[export] Hint Resolve strict_read_line : strict.

Lemma strict_read_headers fuel : forall acc, strict (read_headers fuel acc).
Proof.
  induction fuel as [|f IH]; intros acc; cbn [read_headers]; [constructor|].
  apply strict_bind; [auto with strict|]. intros l.
  destruct (trim_end l); [constructor|].
  destruct (split_once_colon_sp _); [|constructor].
  destruct (MAX_HEADERS <=? len acc); [constructor|apply IH].
Qed.

Theorem strict_read_http_request fuel : strict (read_http_request fuel).
Proof.
  unfold read_http_request. apply strict_bind; [auto with strict|]. intros l.
  destruct (split_ascii_whitespace _) as [|m [|r [|v [|]]]]; try constructor.
  destruct (starts_with _ _); [|constructor].
  apply strict_bind; [apply strict_read_headers|]. intros; constructor.
Qed.

Theorem strict_read_http_response fuel : strict (read_http_response fuel).
Proof.
  unfold read_http_response. apply strict_bind; [auto with strict|]. intros l.
  destruct (splitn3 _) as [|v [|c [|s [|]]]]; try constructor.
  destruct (starts_with _ _); [|constructor].
  destruct (parse_u16 c); [|constructor].
  apply strict_bind; [apply strict_read_headers|]. intros; constructor.
Qed.

Theorem strict_read_connect parse_sockaddr fuel : strict (read_connect parse_sockaddr fuel).
Proof.
  unfold read_connect. apply strict_bind; [apply strict_read_http_request|]. intros q.
  destruct (parse_target _ _); constructor.
Qed.

(* ------------------------------------------------------------------------------------- *)
(* StreamFrameReader: one read depends only on remaining ++ everything still to arrive      *)

Lemma len_app {A} (a b : list A) : len (a ++ b) = len a + len b.
Proof. unfold len. rewrite app_length. lia. Qed.

Lemma read_head_extend rem x :
  12 <= len rem -> read_head (rem ++ x) = read_head rem.
Proof.
  intros H. unfold read_head. rewrite len_app.
  destruct (N.ltb_spec (len rem) 12); [lia|].
  destruct (N.ltb_spec (len rem + len x) 12); [lia|].
  assert (Hl : (12 <= length rem)%nat) by (unfold len in H; lia).
  rewrite firstn_app. replace (4 - length rem)%nat with 0%nat by lia.
  rewrite firstn_O, app_nil_r.
  rewrite !skipn_app. replace (8 - length rem)%nat with 0%nat by lia.
  replace (10 - length rem)%nat with 0%nat by lia. rewrite !skipn_O.
  assert (H8 : forall a b : bytes, (2 <= length a)%nat -> get_u16 (a ++ b) = get_u16 a).
  { intros a b Ha. destruct a as [|a0 [|a1 a']]; cbn [length] in Ha; try lia. reflexivity. }
  rewrite !H8 by (rewrite skipn_length; lia). reflexivity.
Qed.

Lemma sfr_read_nil rem r rem' cs' : sfr_read rem [] = (r, rem', cs') -> cs' = [].
Proof.
  cbn [sfr_read]. intros E.
  destruct (read_head rem) as [[n|]| |]; try (inversion E; reflexivity).
  destruct (n <=? len rem); [destruct (from_buffer _)|]; inversion E; reflexivity.
Qed.

Lemma sfr_read_flat : forall cs rem, wf_chunks cs ->
  let '(r, rem', cs') := sfr_read rem cs in
  let '(r2, rem2, _) := sfr_read (rem ++ concat cs) [] in
  r = r2 /\ wf_chunks cs' /\
  (match r with Ok None => True | _ => rem' ++ concat cs' = rem2 end).
Proof.
  induction cs as [|c cs IH]; intros rem Hwf.
  - cbn [concat]. rewrite app_nil_r. destruct (sfr_read rem []) as [[r rem'] cs'] eqn:E.
    pose proof (sfr_read_nil _ _ _ _ E). subst cs'. cbn [concat]. rewrite app_nil_r.
    split; [reflexivity|]. split; [constructor|]. destruct r as [[?|]| |]; auto.
  - inversion Hwf as [|? ? Hc Hcs]; subst.
    cbn [sfr_read concat].
    destruct (N.ltb_spec (len rem) 12) as [Hshort|Hlong].
    + (* header incomplete: must read on *)
      assert (Hrh : read_head rem = Ok None).
      { unfold read_head. destruct (N.ltb_spec (len rem) 12); [reflexivity|lia]. }
      rewrite Hrh. destruct c as [|b0 c0] eqn:Ec; [congruence|]. rewrite <- Ec in *.
      specialize (IH (rem ++ c) Hcs). rewrite <- app_assoc in IH. exact IH.
    + rewrite <- (read_head_extend rem (c ++ concat cs)) by assumption.
      destruct (read_head (rem ++ c ++ concat cs)) as [[n|]| |] eqn:Erh.
      * destruct (N.leb_spec n (len rem)) as [Hfit|Hnofit].
        -- (* complete frame already buffered *)
           assert (Hfit' : (n <=? len (rem ++ c ++ concat cs)) = true)
             by (apply N.leb_le; rewrite len_app; lia).
           rewrite Hfit'.
           assert (Hn : (N.to_nat n <= length rem)%nat) by (unfold len in Hfit; lia).
           rewrite firstn_app. replace (N.to_nat n - length rem)%nat with 0%nat by lia.
           rewrite firstn_O, app_nil_r.
           rewrite skipn_app. replace (N.to_nat n - length rem)%nat with 0%nat by lia.
           rewrite skipn_O.
           destruct (from_buffer (firstn (N.to_nat n) rem)); cbn [concat]; repeat split; auto.
        -- destruct c as [|b0 c0] eqn:Ec; [congruence|]. rewrite <- Ec in *.
           specialize (IH (rem ++ c) Hcs). rewrite <- app_assoc in IH.
           cbn [sfr_read] in IH. rewrite Erh in IH. exact IH.
      * (* read_head = Ok None with >= 12 bytes is impossible *)
        exfalso. unfold read_head in Erh. rewrite len_app in Erh.
        destruct (N.ltb_spec (len rem + len (c ++ concat cs)) 12); [lia|].
        destruct (negb _); discriminate.
      * repeat split; auto.
      * repeat split; auto.
Qed.

(* Reading a whole stream: the frames delivered and the way it ends do not depend on the
   segmentation. *)
Theorem frame_reader_stitching : forall fuel cs rem, wf_chunks cs ->
  sfr_all fuel rem cs = sfr_all fuel (rem ++ concat cs) [].
Proof.
  induction fuel as [|f IH]; intros cs rem Hwf; [reflexivity|].
  cbn [sfr_all].
  pose proof (sfr_read_flat cs rem Hwf) as H.
  destruct (sfr_read rem cs) as [[r rem'] cs'].
  destruct (sfr_read (rem ++ concat cs) []) as [[r2 rem2] cs2] eqn:E2.
  destruct H as (Hr & Hwf' & Hrem). subst r2.
  destruct r as [[fr|]|e|s]; try reflexivity.
  pose proof (sfr_read_nil _ _ _ _ E2). subst cs2. rewrite (IH cs' rem' Hwf'). rewrite Hrem. reflexivity.
Qed.
