(* Facts about the milu checker / evaluator model that do not need the big induction
   (that one is in MiluSound.v): builtin bodies, accessors, and the witnesses of the two
   recorded soundness holes. *)
From RP Require Import Base Target MiluSyntax MiluDoc MiluEval.
From Coq Require Import ZArith String.

(* integer operators: total on every pair of integers, result is an integer or an arithmetic
   error, never a panic and never a type error *)
Theorem int_op_total name a b : is_int_op name = true ->
  (exists z, int_op name a b = Ok (VInt z)) \/ int_op name a b = Err E_ARITH.
Proof.
  unfold is_int_op, int_op. cbn [existsb]. intros H.
  repeat match goal with
  | |- context [String.eqb name ?s] => destruct (String.eqb name s); [clear H|]
  end;
  try (unfold chk; repeat match goal with |- context [if ?c then _ else _] => destruct c end; eauto; fail).
  cbn in H. discriminate.
Qed.

Theorem cmp_values_typed name a b v : cmp_values name a b = Ok v -> exists r, v = VBool r.
Proof.
  unfold cmp_values. destruct a, b; try discriminate; intros H; inversion H; eauto.
Qed.

(* accessor tables: what the checker declares for a field is what the evaluator delivers *)
Theorem addr_accessor_types_agree a name t :
  addr_field_type name = Ok t ->
  match addr_field a name with
  | Ok (VStr _) => t = TyStr
  | Ok (VInt _) => t = TyInt
  | _ => False
  end.
Proof.
  unfold addr_field_type, addr_field.
  destruct (bytes_eq name (bs "host")) eqn:Eh; cbn [orb].
  - intros H; inversion H; reflexivity.
  - destruct (bytes_eq name (bs "type")) eqn:Et.
    + destruct (bytes_eq name (bs "port")) eqn:Ep.
      * (* a name cannot equal both "type" and "port" *)
        exfalso. clear -Et Ep.
        assert (Hx : forall x y z, bytes_eq x y = true -> bytes_eq x z = true -> bytes_eq y z = true).
        { induction x as [|c x IH]; intros [|d y] [|e z]; cbn; try discriminate; auto.
          intros H1 H2. apply andb_true_iff in H1. apply andb_true_iff in H2.
          destruct H1 as [H1 H1'], H2 as [H2 H2']. apply N.eqb_eq in H1. apply N.eqb_eq in H2. subst.
          rewrite N.eqb_refl. cbn. eauto. }
        specialize (Hx _ _ _ Et Ep). vm_compute in Hx. discriminate.
      * intros H; inversion H; reflexivity.
    + destruct (bytes_eq name (bs "port")); intros H; inversion H; reflexivity.
Qed.

Section Witness.
(* trivial oracles are enough for the witnesses *)
Let rx : bytes -> bytes -> option bool := fun _ _ => Some false.
Let cm : bytes -> bytes -> bool := fun _ _ => false.
Let z := mk_addr 1 [] 0 [] [].
Let rq := mk_req [] [] [] z z.

Definition id_ (s : string) := EId (bytes_of_string s).

(* hole 1 (recorded as C08-any-empty-array): [[],[1]][1][0] =~ "x" *)
Definition hole_any : expr :=
  op2 "Like" (op2 "Index" (op2 "Index" (EArr [EArr []; EArr [EInt 1]]) (EInt 1)) (EInt 0)) (EStr [120]).

Theorem soundness_refuted_any :
  type_of rx cm rq 50 [] hole_any = Ok TyBool /\ real_value_of rx cm rq 50 [] hole_any = Err E_TYPE.
Proof. split; vm_compute; reflexivity. Qed.

(* hole 2 (recorded as C08-lazy-aggregate-scope): (let a = 1 in [a])[0] *)
Definition hole_scope : expr :=
  op2 "Index" (op2 "Scope" (EArr [ETup [id_ "a"; EInt 1]]) (EArr [id_ "a"])) (EInt 0).

Theorem soundness_refuted_scope :
  type_of rx cm rq 50 [] hole_scope = Ok TyInt /\ real_value_of rx cm rq 50 [] hole_scope = Err E_TYPE.
Proof. split; vm_compute; reflexivity. Qed.

(* ... and with shadowing, inside the scope: let a = 1 in let y = (a,2) in let a = "s" in y.0 + 1 *)
Definition hole_shadow : expr :=
  op2 "Scope" (EArr [ETup [id_ "a"; EInt 1]])
    (op2 "Scope" (EArr [ETup [id_ "y"; ETup [id_ "a"; EInt 2]]])
      (op2 "Scope" (EArr [ETup [id_ "a"; EStr [115]]])
        (op2 "Plus" (op2 "Access" (id_ "y") (EInt 0)) (EInt 1)))).

Theorem soundness_refuted_shadow :
  type_of rx cm rq 50 [] hole_shadow = Ok TyInt /\ real_value_of rx cm rq 50 [] hole_shadow = Err E_TYPE.
Proof. split; vm_compute; reflexivity. Qed.

(* non-vacuity of the positive statements: an accepted let-free program evaluates to its type *)
Example accepted_example :
  let e := op2 "Plus" (op2 "Index" (EArr [EInt 1; EInt 2]) (EInt (-1))) (op3 "If" (op2 "Lesser" (EInt 1) (EInt 2)) (EInt 10) (EInt 20)) in
  type_of rx cm rq 50 [] e = Ok TyInt /\ real_value_of rx cm rq 50 [] e = Ok (VInt 12).
Proof. split; vm_compute; reflexivity. Qed.
End Witness.
