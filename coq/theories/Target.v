(* Destinations (src/context.rs TargetAddress), UTF-8 validity (Rust String invariants),
   decimal printing/parsing. *)
From RP Require Import Base.

Inductive target : Type :=
| TDomain (host : bytes) (port : N)
| TV4 (ip : N) (port : N)            (* ip as u32 *)
| TV6 (ip : bytes) (port : N)        (* 16 bytes *)
| TUnknown.

(* ---- UTF-8 (the validity rule of core::str::from_utf8) -------------------------------- *)

Definition is_cont (b : N) : bool := (128 <=? b) && (b <=? 191).
Definition in_range (lo hi b : N) : bool := (lo <=? b) && (b <=? hi).

Fixpoint utf8_valid (s : bytes) : bool :=
  match s with
  | [] => true
  | b0 :: r0 =>
    if b0 <? 128 then utf8_valid r0
    else match r0 with
    | [] => false
    | b1 :: r1 =>
      if in_range 194 223 b0 then is_cont b1 && utf8_valid r1
      else match r1 with
      | [] => false
      | b2 :: r2 =>
        if b0 =? 224 then in_range 160 191 b1 && is_cont b2 && utf8_valid r2
        else if in_range 225 236 b0 || in_range 238 239 b0 then is_cont b1 && is_cont b2 && utf8_valid r2
        else if b0 =? 237 then in_range 128 159 b1 && is_cont b2 && utf8_valid r2
        else match r2 with
        | [] => false
        | b3 :: r3 =>
          if b0 =? 240 then in_range 144 191 b1 && is_cont b2 && is_cont b3 && utf8_valid r3
          else if in_range 241 243 b0 then is_cont b1 && is_cont b2 && is_cont b3 && utf8_valid r3
          else if b0 =? 244 then in_range 128 143 b1 && is_cont b2 && is_cont b3 && utf8_valid r3
          else false
        end
      end
    end
  end.

(* String::from_utf8_lossy: identity on valid input; otherwise some replacement text that the
   model does not compute — represented by the marker [255], which no valid string equals. *)
Definition lossy_mark : bytes := [255].
Definition lossy (s : bytes) : bytes := if utf8_valid s then s else lossy_mark.

(* ---- decimal -------------------------------------------------------------------------- *)

Fixpoint dec_digits_fuel (fuel : nat) (n : N) (acc : bytes) : bytes :=
  match fuel with
  | O => acc
  | S f => let acc' := (48 + n mod 10) :: acc in
           if n / 10 =? 0 then acc' else dec_digits_fuel f (n / 10) acc'
  end.
(* enough fuel for any value below 10^20 *)
Definition dec (n : N) : bytes := dec_digits_fuel 20 n [].

Definition is_digit (b : N) : bool := in_range 48 57 b.

(* value of a non-empty all-digit string, None otherwise *)
Fixpoint parse_dec_go (s : bytes) (acc : N) : option N :=
  match s with
  | [] => Some acc
  | b :: r => if is_digit b then parse_dec_go r (acc * 10 + (b - 48)) else None
  end.
Definition parse_dec (s : bytes) : option N :=
  match s with [] => None | _ => parse_dec_go s 0 end.

(* str::parse::<u16>(): optional leading '+', digits, value <= 65535 *)
Definition parse_u16 (s : bytes) : option N :=
  let s' := match s with 43 :: r => r | _ => s end in
  match parse_dec s' with
  | Some v => if v <=? 65535 then Some v else None
  | None => None
  end.

(* Ipv4Addr Display *)
Definition print_v4 (ip : N) : bytes :=
  dec ((ip / 16777216) mod 256) ++ [46] ++ dec ((ip / 65536) mod 256) ++ [46] ++
  dec ((ip / 256) mod 256) ++ [46] ++ dec (ip mod 256).

(* split at the last occurrence of c: (before, after) *)
Fixpoint rsplit_last (c : N) (s : bytes) : option (bytes * bytes) :=
  match s with
  | [] => None
  | b :: r =>
      match rsplit_last c r with
      | Some (h, t) => Some (b :: h, t)
      | None => if b =? c then Some ([], r) else None
      end
  end.
