(* Decimal text of port numbers: a finite sweep over 0..65535 lifted to a theorem. *)
From RP Require Import Base Target.

(* ---- decimal ports (finite sweep over 0..65535, lifted) -------------------------------- *)

Fixpoint forall_below (n : nat) (f : N -> bool) : bool :=
  match n with O => true | S k => f (N.of_nat k) && forall_below k f end.

Lemma forall_below_spec n f : forall_below n f = true -> forall k, (k < n)%nat -> f (N.of_nat k) = true.
Proof.
  induction n as [|n IH]; intros H k Hk; [lia|]. cbn [forall_below] in H.
  apply andb_true_iff in H. destruct H as [H1 H2].
  destruct (Nat.eq_dec k n) as [->|Hne]; [exact H1|apply IH; [exact H2|lia]].
Qed.

Definition plain (b : N) : bool := (32 <? b) && (b <? 127).   (* printable ASCII, no space *)

Definition port_text_ok (p : N) : bool :=
  match parse_u16 (dec p) with Some v => v =? p | None => false end &&
  forallb is_digit (dec p) && match dec p with [] => false | _ => true end && (len (dec p) <=? 5).

Lemma port_sweep :
  forall_below 256 (fun hi => forall_below 256 (fun lo => port_text_ok (hi * 256 + lo))) = true.
Proof. vm_compute. reflexivity. Qed.

Lemma port_text p : p < 65536 ->
  parse_u16 (dec p) = Some p /\ forallb is_digit (dec p) = true /\ dec p <> [] /\ len (dec p) <= 5.
Proof.
  intros Hp.
  pose proof (forall_below_spec _ _ port_sweep (N.to_nat (p / 256))) as H.
  assert (Hhi : p / 256 < 256) by (apply N.div_lt_upper_bound; lia).
  assert (Hlo : p mod 256 < 256) by (apply N.mod_lt; lia).
  specialize (H ltac:(lia)). rewrite N2Nat.id in H.
  pose proof (forall_below_spec _ _ H (N.to_nat (p mod 256)) ltac:(lia)) as H'.
  rewrite N2Nat.id in H'.
  replace (p / 256 * 256 + p mod 256) with p in H'
    by (pose proof (N.div_mod p 256 ltac:(lia)); lia).
  unfold port_text_ok in H'.
  apply andb_true_iff in H'. destruct H' as [H' H4]. apply N.leb_le in H4.
  apply andb_true_iff in H'. destruct H' as [H0 H3]. apply andb_true_iff in H0. destruct H0 as [H1 H2].
  destruct (parse_u16 (dec p)) as [v|]; [|discriminate]. apply N.eqb_eq in H1. subst v.
  split; [reflexivity|]. split; [exact H2|]. split; [|exact H4].
  destruct (dec p); [discriminate|discriminate].
Qed.

