(* Proofs about the QUIC datagram hop (QuicDgram.v): with fragment ids drawn from one counter every write of every
   session comes out of the peer's single reassembly table exactly once and unchanged, whatever the interleaving and
   the order of the datagrams; with a counter per writer (the code before fix c86bb78) two sessions mix. *)
From RP Require Import Base Target Frames Frag FragProofs C03Proofs QuicDgram.
From RP.Gen Require Gen_udp.
Local Notation frame := Frames.frame.

Lemma recv_wire_eq ovf timeout : forall wire now st,
  recv_wire ovf timeout now st wire = recv_all frame frame_of_buffer ovf timeout now st wire.
Proof.
  induction wire as [|d wire IH]; intros now st; [reflexivity|].
  cbn [recv_wire recv_all]. destruct (reassemble frame frame_of_buffer ovf now timeout st d) as [st' o].
  f_equal. apply IH.
Qed.

(* ---- ids ------------------------------------------------------------------------------------------------------ *)

Lemma ids_from_length shared start : forall ws before, length (ids_from shared start before ws) = length ws.
Proof. induction ws as [|w ws IH]; intros before; cbn [ids_from length]; auto. Qed.

Lemma ids_from_shared_nth start : forall ws before k,
  (k < length ws)%nat ->
  nth k (ids_from true start before ws) 0 = (start + len before + N.of_nat k) mod 65536.
Proof.
  induction ws as [|w ws IH]; intros before k Hk; cbn [length] in Hk; [lia|].
  cbn [ids_from]. destruct k as [|k]; cbn [nth].
  - unfold write_id. f_equal. lia.
  - rewrite IH by lia. f_equal. unfold len. rewrite app_length. cbn [length]. lia.
Qed.

(* one counter: as long as fewer than 65536 writes are in flight their ids are pairwise different *)
Theorem shared_ids_distinct start ws :
  len ws <= 65536 -> NoDup (ids_of true start ws).
Proof.
  intros Hlen. unfold ids_of.
  apply (NoDup_nth (ids_from true start [] ws) 0).
  intros i j Hi Hj Heq. rewrite ids_from_length in Hi, Hj.
  rewrite !ids_from_shared_nth in Heq by assumption.
  change (len (@nil wr)) with 0 in Heq. rewrite !N.add_0_r in Heq.
  unfold len in Hlen. assert (Hi' : N.of_nat i < 65536) by lia. assert (Hj' : N.of_nat j < 65536) by lia.
  set (a := N.of_nat i) in *. set (b := N.of_nat j) in *.
  assert (Hab : a = b).
  { rewrite <- (N.mod_small a 65536), <- (N.mod_small b 65536) by assumption.
    rewrite <- (N.add_mod_idemp_l start a), <- (N.add_mod_idemp_l start b) in Heq by lia.
    set (s := start mod 65536) in *. assert (Hs : s < 65536) by (apply N.mod_lt; lia).
    destruct (N.lt_ge_cases (s + a) 65536) as [Ha|Ha]; destruct (N.lt_ge_cases (s + b) 65536) as [Hb|Hb].
    - rewrite !N.mod_small in Heq by lia. rewrite !N.mod_small by lia. lia.
    - rewrite (N.mod_small (s + a)) in Heq by lia.
      replace (s + b) with ((s + b - 65536) + 1 * 65536) in Heq by lia.
      rewrite N.mod_add, N.mod_small in Heq by lia. rewrite !N.mod_small by lia. lia.
    - rewrite (N.mod_small (s + b)) in Heq by lia.
      replace (s + a) with ((s + a - 65536) + 1 * 65536) in Heq by lia.
      rewrite N.mod_add, N.mod_small in Heq by lia. rewrite !N.mod_small by lia. lia.
    - replace (s + a) with ((s + a - 65536) + 1 * 65536) in Heq by lia.
      replace (s + b) with ((s + b - 65536) + 1 * 65536) in Heq by lia.
      rewrite !N.mod_add, !N.mod_small in Heq by lia. rewrite !N.mod_small by lia. lia. }
  unfold a, b in Hab. lia.
Qed.

Lemma ids_shared_lt start ws : Forall (fun id => id < 65536) (ids_of true start ws).
Proof.
  unfold ids_of. generalize (@nil wr). induction ws as [|w ws IH]; intros before; cbn [ids_from]; constructor.
  - unfold write_id. apply N.mod_lt. lia.
  - apply IH.
Qed.

(* ---- one write through the shared table ------------------------------------------------------------------------ *)

(* the datagrams of the wire that carry fragment id `id` are exactly the fragments frs, each once, in some order *)
Definition fair_for (wire : list bytes) (id : N) (frs : list bytes) : Prop :=
  exists ixs, NoDup ixs /\ (forall j, (j < length frs)%nat -> In j ixs) /\
              Forall (fun i => (i < length frs)%nat) ixs /\
              filter (fun d => get_u16 d =? id) wire = map (fun i => nth i frs []) ixs.

Lemma make_fragments_ok_inv ovf mtu id buf r :
  make_fragments ovf mtu id buf = Ok r ->
  4 < mtu /\ (ovf = false \/ id <> 65535).
Proof.
  unfold make_fragments. destruct (N.ltb_spec 4 mtu) as [Hm|Hm]; cbn [negb]; [|discriminate].
  destruct ovf; cbn [andb].
  - destruct (N.eqb_spec id 65535); [discriminate|]. intros _. split; [exact Hm|right; assumption].
  - intros _. split; [exact Hm|left; reflexivity].
Qed.

Theorem write_comes_out_once ovf_tx ovf_rx mtu timeout now wire id sid f frs :
  id < 65536 -> frame_ok (stamp sid f) ->
  send_one ovf_tx mtu id sid f = Ok frs -> (1 <= length frs <= 127)%nat ->
  fair_for wire id frs ->
  exists pre post : list nat,
    (length pre + length post + 1 = length frs)%nat /\
    select frame id wire (recv_wire ovf_rx timeout now fs_empty wire) =
    repeat (Ok None) (length pre) ++ Ok (Some (stamp sid f)) :: repeat (Ok None) (length post).
Proof.
  intros Hid Hok Hsend Hlen (ixs & Hnd & Hcov & Hrng & Hfil).
  unfold send_one in Hsend.
  destruct (encode_frame (stamp sid f)) as [buf|e|s] eqn:Henc; cbn [obind] in Hsend; try discriminate.
  destruct (make_fragments ovf_tx mtu id buf) as [[id' frs']|e|s] eqn:Hmk; cbn [obind snd] in Hsend; try discriminate.
  assert (frs' = frs) by congruence. subst frs'. clear Hsend.
  destruct (make_fragments_ok_inv _ _ _ _ _ Hmk) as [Hmtu Hovf].
  assert (Hovf' : ovf_tx = false \/ id < 65535) by (destruct Hovf; [left; assumption|right; lia]).
  set (c := length (chunks (N.to_nat (mtu - 4)) buf)).
  assert (Hc : length frs = c).
  { unfold make_fragments in Hmk.
    destruct (N.ltb_spec 4 mtu); cbn [negb] in Hmk; [|discriminate].
    destruct (ovf_tx && (id =? 65535)); [discriminate|].
    destruct (ovf_tx && (256 <=? len (chunks (N.to_nat (mtu - 4)) buf))); [discriminate|].
    injection Hmk as _ Hfr. rewrite <- Hfr. apply number_frags_length. }
  rewrite recv_wire_eq.
  rewrite (interleave_independent frame frame_of_buffer ovf_rx timeout id wire now now fs_empty fs_empty eq_refl).
  rewrite Hfil.
  assert (Hk : (0 < N.to_nat (N.of_nat c))%nat) by lia.
  destruct (fragment_reassemble_exact frame frame_of_buffer ovf_rx ovf_tx mtu id buf timeout now fs_empty ixs
              Hmtu Hid Hovf') as (id'' & frs'' & pre & post & Hmk' & Hl & Hrecv).
  - fold c. lia.
  - reflexivity.
  - fold c. rewrite <- Hc. exact Hrng.
  - intros j Hj. rewrite Nat2N.id in Hj. apply Hcov. fold c in Hj. lia.
  - apply nodup_not_two_covers; [exact Hk|exact Hnd].
  - rewrite Hmk in Hmk'. injection Hmk' as _ Hfr. subst frs''.
    exists pre, post. split.
    + assert (Hix : length ixs = length frs).
      { apply Nat.le_antisymm.
        - assert (H1 : (length ixs <= length (seq 0 (length frs)))%nat).
          { apply NoDup_incl_length; [exact Hnd|].
            intros i Hi. rewrite Forall_forall in Hrng. apply in_seq. specialize (Hrng i Hi). lia. }
          rewrite seq_length in H1. exact H1.
        - assert (H2 : (length (seq 0 (length frs)) <= length ixs)%nat).
          { apply NoDup_incl_length; [apply seq_NoDup|]. intros j Hj. apply in_seq in Hj. apply Hcov. lia. }
          rewrite seq_length in H2. exact H2. }
      lia.
    + rewrite Hrecv. unfold frame_of_buffer.
      rewrite <- (app_nil_r buf).
      rewrite (frame_roundtrip (stamp sid f) buf [] Hok Henc). reflexivity.
Qed.

(* ---- all the writes of all the sessions of a connection, any interleaving ------------------------------------- *)

Lemma send_one_ids ovf mtu id sid f frs :
  id < 65536 -> send_one ovf mtu id sid f = Ok frs -> (1 <= length frs <= 127)%nat ->
  forall i, (i < length frs)%nat -> get_u16 (nth i frs []) = id.
Proof.
  intros Hid Hsend Hlen i Hi. unfold send_one in Hsend.
  destruct (encode_frame (stamp sid f)) as [buf|e|s]; cbn [obind] in Hsend; try discriminate.
  destruct (make_fragments ovf mtu id buf) as [[id' frs']|e|s] eqn:Hmk; cbn [obind snd] in Hsend; try discriminate.
  assert (frs' = frs) by congruence. subst frs'.
  destruct (make_fragments_ok_inv _ _ _ _ _ Hmk) as [Hmtu Hovf].
  assert (Hovf' : ovf = false \/ id < 65535) by (destruct Hovf; [left; assumption|right; lia]).
  assert (Hc : length frs = length (chunks (N.to_nat (mtu - 4)) buf)).
  { unfold make_fragments in Hmk.
    destruct (N.ltb_spec 4 mtu); cbn [negb] in Hmk; [|discriminate].
    destruct (ovf && (id =? 65535)); [discriminate|].
    destruct (ovf && (256 <=? len (chunks (N.to_nat (mtu - 4)) buf))); [discriminate|].
    injection Hmk as _ Hfr. rewrite <- Hfr. apply number_frags_length. }
  destruct (fragments_cover ovf mtu id buf Hmtu Hid Hovf' ltac:(lia)) as (frs2 & Hmk2 & Hl2 & _ & Hnth & _).
  rewrite Hmk in Hmk2. injection Hmk2 as _ Hfr. subst frs2.
  rewrite Hnth by lia. apply dg_id; try lia.
Qed.

Lemma send_all_length ovf mtu : forall ids ws sent,
  length ids = length ws -> send_all ovf mtu ids ws = Ok sent -> length sent = length ws.
Proof.
  induction ids as [|id ids IH]; intros [|[sid f] ws] sent Hl Hs; cbn [length] in *; try discriminate.
  - cbn in Hs. injection Hs as <-. reflexivity.
  - cbn [send_all] in Hs.
    destruct (send_one ovf mtu id sid f) as [frs|e|s]; cbn [obind] in Hs; try discriminate.
    destruct (send_all ovf mtu ids ws) as [rest|e|s] eqn:Hr; cbn [obind] in Hs; try discriminate.
    injection Hs as <-. cbn [length]. f_equal. apply (IH ws rest); [lia|exact Hr].
Qed.

Lemma send_all_nth ovf mtu : forall ids ws sent k,
  length ids = length ws -> send_all ovf mtu ids ws = Ok sent -> (k < length ws)%nat ->
  send_one ovf mtu (nth k ids 0) (fst (nth k ws (0, mk_frame None 0 []))) (snd (nth k ws (0, mk_frame None 0 [])))
  = Ok (nth k sent []).
Proof.
  induction ids as [|id ids IH]; intros [|[sid f] ws] sent k Hl Hs Hk; cbn [length] in *; try discriminate; try lia.
  cbn [send_all] in Hs.
  destruct (send_one ovf mtu id sid f) as [frs|e|s] eqn:H1; cbn [obind] in Hs; try discriminate.
  destruct (send_all ovf mtu ids ws) as [rest|e|s] eqn:Hr; cbn [obind] in Hs; try discriminate.
  injection Hs as <-. destruct k as [|k]; cbn [nth fst snd].
  - exact H1.
  - apply (IH ws rest k); [lia|exact Hr|lia].
Qed.

(* the datagrams with the id of write k, in a complete schedule, are the fragments of write k - provided no other write
   has the same id *)
Lemma filter_wire_of (sent : list (list bytes)) ids k sched :
  length ids = length sent -> NoDup ids -> (k < length sent)%nat ->
  (forall k' i, (k' < length sent)%nat -> (i < length (nth k' sent []))%nat ->
                get_u16 (nth i (nth k' sent []) []) = nth k' ids 0) ->
  Forall (in_range sent) sched ->
  filter (fun d => get_u16 d =? nth k ids 0) (wire_of sent sched) =
  map (fun i => nth i (nth k sent []) []) (map snd (filter (fun ki => Nat.eqb (fst ki) k) sched)).
Proof.
  intros Hl Hnd Hk Hid. unfold wire_of. induction sched as [|[k' i] sched IH]; intros Hr; [reflexivity|].
  inversion Hr as [|x l [Hk' Hi] Hr' ]; subst. cbn [fst snd] in Hk', Hi.
  cbn [map filter fst snd].
  match goal with |- context [get_u16 ?t =? _] => replace (get_u16 t) with (nth k' ids 0) by (symmetry; exact (Hid k' i Hk' Hi)) end.
  destruct (Nat.eqb_spec k' k) as [->|Hne].
  - rewrite N.eqb_refl. cbn [map snd]. f_equal. apply IH. exact Hr'.
  - destruct (N.eqb_spec (nth k' ids 0) (nth k ids 0)) as [Heq|_].
    + exfalso. apply Hne. apply (proj1 (NoDup_nth ids 0) Hnd). all: [> rewrite Hl; exact Hk'|rewrite Hl; exact Hk|exact Heq].
    + apply IH. exact Hr'.
Qed.

Lemma complete_fair (sent : list (list bytes)) sched k :
  complete sent sched -> (k < length sent)%nat ->
  let ixs := map snd (filter (fun ki => Nat.eqb (fst ki) k) sched) in
  NoDup ixs /\ (forall j, (j < length (nth k sent []))%nat -> In j ixs) /\
  Forall (fun i => (i < length (nth k sent []))%nat) ixs.
Proof.
  intros (Hnd & Hrng & Hall) Hk ixs. unfold ixs. repeat split.
  - clear Hall Hrng. induction sched as [|[k' i] sched IH]; [constructor|].
    inversion Hnd as [|x l Hnin Hnd']; subst. cbn [filter fst].
    destruct (Nat.eqb_spec k' k) as [->|Hne]; [|apply IH; exact Hnd'].
    cbn [map snd]. constructor; [|apply IH; exact Hnd'].
    intros Hin. apply in_map_iff in Hin. destruct Hin as ([k2 i2] & Hi2 & Hin). cbn [snd] in Hi2. subst i2.
    apply filter_In in Hin. destruct Hin as [Hin Hk2]. cbn [fst] in Hk2. apply Nat.eqb_eq in Hk2. subst k2.
    contradiction.
  - intros j Hj. apply in_map_iff. exists (k, j). split; [reflexivity|].
    apply filter_In. split; [apply Hall; split; assumption|cbn [fst]; apply Nat.eqb_refl].
  - apply Forall_forall. intros i Hi. apply in_map_iff in Hi. destruct Hi as ([k2 i2] & Hi2 & Hin).
    cbn [snd] in Hi2. subst i2. apply filter_In in Hin. destruct Hin as [Hin Hk2]. cbn [fst] in Hk2.
    apply Nat.eqb_eq in Hk2. subst k2. rewrite Forall_forall in Hrng. apply (Hrng _ Hin).
Qed.

Definition wr0 : wr := (0, mk_frame None 0 []).

(* Headline.  Any number of sessions write any frames into one connection; ids come from the shared counter; the
   connection delivers every datagram exactly once, in any order.  Then for every write, the reassembly table's
   outputs at the positions of that write's datagrams are: nothing ... the stamped frame, unchanged, once ...
   nothing - whatever the other sessions sent in between. *)
Theorem dgram_hop_exact ovf_tx ovf_rx mtu timeout now start (ws : list wr) sent sched :
  len ws <= 65536 ->
  Forall (fun w => frame_ok (stamp (fst w) (snd w))) ws ->
  send_all ovf_tx mtu (ids_of true start ws) ws = Ok sent ->
  Forall (fun frs => (1 <= length frs <= 127)%nat) sent ->
  complete sent sched ->
  forall k, (k < length ws)%nat ->
    let w := nth k ws wr0 in
    exists pre post : list nat,
      (length pre + length post + 1 = length (nth k sent []))%nat /\
      select frame (nth k (ids_of true start ws) 0) (wire_of sent sched)
             (recv_wire ovf_rx timeout now fs_empty (wire_of sent sched)) =
      repeat (Ok None) (length pre) ++ Ok (Some (stamp (fst w) (snd w))) :: repeat (Ok None) (length post).
Proof.
  intros Hn Hok Hsend Hsz Hcomp k Hk w.
  set (ids := ids_of true start ws) in *.
  assert (Hlid : length ids = length ws) by (unfold ids, ids_of; apply ids_from_length).
  pose proof (send_all_length _ _ _ _ _ Hlid Hsend) as Hls.
  assert (Hidlt : forall j, (j < length ws)%nat -> nth j ids 0 < 65536).
  { intros j Hj. pose proof (ids_shared_lt start ws) as Hf. rewrite Forall_forall in Hf.
    apply Hf. apply nth_In. fold ids. lia. }
  assert (Hone : forall j, (j < length ws)%nat ->
            send_one ovf_tx mtu (nth j ids 0) (fst (nth j ws wr0)) (snd (nth j ws wr0)) = Ok (nth j sent [])).
  { intros j Hj. apply (send_all_nth ovf_tx mtu ids ws sent j Hlid Hsend Hj). }
  assert (Hszk : forall j, (j < length ws)%nat -> (1 <= length (nth j sent []) <= 127)%nat).
  { intros j Hj. rewrite Forall_forall in Hsz. apply Hsz. apply nth_In. lia. }
  apply (write_comes_out_once ovf_tx ovf_rx mtu timeout now (wire_of sent sched) (nth k ids 0) (fst w) (snd w)
           (nth k sent [])).
  - apply Hidlt. exact Hk.
  - rewrite Forall_forall in Hok. apply Hok. apply nth_In. exact Hk.
  - apply Hone. exact Hk.
  - apply Hszk. exact Hk.
  - destruct (complete_fair sent sched k Hcomp ltac:(lia)) as (H1 & H2 & H3).
    eexists. split; [exact H1|]. split; [exact H2|]. split; [exact H3|].
    apply filter_wire_of.
    + transitivity (length ws); [exact Hlid|symmetry; exact Hls].
    + apply shared_ids_distinct. exact Hn.
    + apply (Nat.lt_le_trans _ (length ws)); [exact Hk|]. apply Nat.eq_le_incl. symmetry. exact Hls.
    + intros k' i Hk' Hi. assert (Hk'' : (k' < length ws)%nat) by (apply (Nat.lt_le_trans _ _ _ Hk'); apply Nat.eq_le_incl; exact Hls). clear Hk'. rename Hk'' into Hk'.
      apply (send_one_ids ovf_tx mtu (nth k' ids 0) (fst (nth k' ws wr0)) (snd (nth k' ws wr0)) (nth k' sent [])).
      * apply Hidlt. exact Hk'.
      * apply Hone. exact Hk'.
      * apply Hszk. exact Hk'.
      * exact Hi.
    + destruct Hcomp as (_ & Hr & _). exact Hr.
Qed.

(* every datagram of the wire belongs to one of the writes: there is no output outside the positions above *)
Lemma wire_ids_are_write_ids (sent : list (list bytes)) ids sched :
  length ids = length sent ->
  (forall k' i, (k' < length sent)%nat -> (i < length (nth k' sent []))%nat ->
                get_u16 (nth i (nth k' sent []) []) = nth k' ids 0) ->
  Forall (in_range sent) sched ->
  Forall (fun d => In (get_u16 d) ids) (wire_of sent sched).
Proof.
  intros Hl Hid Hr. unfold wire_of. apply Forall_forall. intros d Hd. apply in_map_iff in Hd.
  destruct Hd as ([k i] & <- & Hin). rewrite Forall_forall in Hr. destruct (Hr _ Hin) as [Hk Hi]. cbn [fst snd] in *.
  rewrite (Hid k i Hk Hi). apply nth_In. lia.
Qed.

(* ---- the code before fix c86bb78: every writer counts from 0 --------------------------------------------------- *)

Definition fA : frame := mk_frame None 0 [1; 2; 3; 4; 5; 6; 7; 8; 9; 10].
Definition fB : frame := mk_frame None 0 [101; 102; 103; 104; 105; 106; 107; 108; 109; 110].

(* two sessions (1 and 2) each write one 22-byte frame through a connection whose datagrams hold 20 bytes: both
   writes get fragment id 0; the datagrams arrive as A0 B0 B1 A1; session 1 is handed a frame whose body ends in
   session 2's bytes, session 2 is handed nothing *)
Theorem per_writer_ids_mix :
  exists ws sent sched,
    ids_of false 0 ws = [0; 0] /\
    send_all false 20 (ids_of false 0 ws) ws = Ok sent /\ complete sent sched /\
    let outs := recv_wire false 5000 0 fs_empty (wire_of sent sched) in
    handed_to 1 outs = [mk_frame None 1 [1; 2; 3; 4; 105; 106; 107; 108; 109; 110]] /\
    handed_to 2 outs = [].
Proof.
  exists [(1, fA); (2, fB)], [[ [0;0;2;0;82;80;70;77;0;0;0;1;0;0;0;10;1;2;3;4]; [0;0;2;1;5;6;7;8;9;10] ];
                              [ [0;0;2;0;82;80;70;77;0;0;0;2;0;0;0;10;101;102;103;104]; [0;0;2;1;105;106;107;108;109;110] ]],
         [(0, 0); (1, 0); (1, 1); (0, 1)]%nat.
  split; [reflexivity|]. split; [vm_compute; reflexivity|]. split.
  - split; [|split].
    + repeat constructor; cbn; intuition congruence.
    + repeat constructor; cbn; lia.
    + intros [k i] [Hk Hi]. cbn [fst snd length] in *.
      destruct k as [|[|k]]; cbn in Hi; try lia; destruct i as [|[|i]]; try lia; cbn; auto.
  - vm_compute. split; reflexivity.
Qed.

(* the same two writes with the shared counter: each session is handed its own frame *)
Example shared_ids_do_not_mix :
  let ws := [(1, fA); (2, fB)] in
  exists sent, send_all false 20 (ids_of true 0 ws) ws = Ok sent /\
    let outs := recv_wire false 5000 0 fs_empty (wire_of sent [(0, 0); (1, 0); (1, 1); (0, 1)]%nat) in
    handed_to 1 outs = [stamp 1 fA] /\ handed_to 2 outs = [stamp 2 fB].
Proof. eexists. split; [vm_compute; reflexivity|]. vm_compute. split; reflexivity. Qed.

(* ---- isolation of the per-session queues ---------------------------------------------------------------------- *)

Lemma alookup_ainsert_same' {V} k (v : V) m : alookup k (ainsert k v m) = Some v.
Proof. apply alookup_ainsert_same. Qed.

Lemma alookup_ainsert_other' {V} k k2 (v : V) m : k <> k2 -> alookup k2 (ainsert k v m) = alookup k2 m.
Proof. intros H. apply alookup_ainsert_other. congruence. Qed.

(* with try_send a step never gets stuck *)
Lemma dstep_went cap q op : exists q' h, dstep false cap q op = Went q' h.
Proof.
  destruct op as [f|sid]; cbn [dstep].
  - destruct (alookup (f_sid f) q) as [l|]; [|eauto]. destruct (Nat.ltb (length l) cap); eauto.
  - destruct (alookup sid q) as [[|f l]|]; eauto.
Qed.

(* queues hold only frames of their own session (true of the empty queues, kept by every step) *)
Definition own (q : queues) : Prop := forall sid l, alookup sid q = Some l -> Forall (fun f => f_sid f = sid) l.

Lemma own_step waits cap q op q' h : own q -> dstep waits cap q op = Went q' h -> own q'.
Proof.
  intros Ho Hs sid l Hl. destruct op as [f|s]; cbn [dstep] in Hs.
  - destruct (alookup (f_sid f) q) as [l0|] eqn:E; [|injection Hs as <- <-; eauto].
    destruct (Nat.ltb (length l0) cap).
    + injection Hs as <- <-. destruct (N.eq_dec (f_sid f) sid) as [<-|Hne].
      * rewrite alookup_ainsert_same' in Hl. injection Hl as <-. apply Forall_app. split; [eauto|].
        constructor; [reflexivity|constructor].
      * rewrite alookup_ainsert_other' in Hl by exact Hne. eauto.
    + destruct waits; [discriminate|]. injection Hs as <- <-. eauto.
  - destruct (alookup s q) as [[|f l0]|] eqn:E; try (injection Hs as <- <-; eauto).
    destruct (N.eq_dec s sid) as [<-|Hne].
    + rewrite alookup_ainsert_same' in Hl. injection Hl as <-. specialize (Ho _ _ E). inversion Ho; assumption.
    + rewrite alookup_ainsert_other' in Hl by exact Hne. eauto.
Qed.

Lemma dstep_other_own cap q op b q' h :
  own q -> concerns b op = false -> dstep false cap q op = Went q' h ->
  alookup b q' = alookup b q /\ filter (fun f => f_sid f =? b) h = [].
Proof.
  intros Ho Hc Hs. destruct op as [f|sid]; cbn [dstep concerns] in *; apply N.eqb_neq in Hc.
  - destruct (alookup (f_sid f) q) as [l|]; [|injection Hs as <- <-; split; reflexivity].
    destruct (Nat.ltb (length l) cap); injection Hs as <- <-; (split; [|reflexivity]); [|reflexivity].
    apply alookup_ainsert_other'. exact Hc.
  - destruct (alookup sid q) as [[|f l]|] eqn:E; injection Hs as <- <-; try (split; reflexivity).
    split; [apply alookup_ainsert_other'; exact Hc|].
    specialize (Ho _ _ E). inversion Ho as [|x l' Hx Hl']; subst. cbn [filter].
    destruct (N.eqb_spec (f_sid f) b) as [Heq|_]; [congruence|reflexivity].
Qed.

(* a step that concerns b does to b's queue, and hands b, the same thing whatever the other queues hold *)
Lemma dstep_same cap q1 q2 op b :
  concerns b op = true -> alookup b q1 = alookup b q2 ->
  exists q1' q2' h, dstep false cap q1 op = Went q1' h /\ dstep false cap q2 op = Went q2' h /\
                    alookup b q1' = alookup b q2'.
Proof.
  intros Hc Hq. destruct op as [f|sid]; cbn [dstep concerns] in *; apply N.eqb_eq in Hc.
  - rewrite Hc. rewrite <- Hq. destruct (alookup b q1) as [l|] eqn:E.
    + destruct (Nat.ltb (length l) cap).
      * exists (ainsert b (l ++ [f]) q1), (ainsert b (l ++ [f]) q2), []. repeat split.
        rewrite !alookup_ainsert_same'. reflexivity.
      * exists q1, q2, []. repeat split. congruence.
    + exists q1, q2, []. repeat split. congruence.
  - subst sid. rewrite <- Hq. destruct (alookup b q1) as [[|f l]|] eqn:E.
    + exists q1, q2, []. repeat split. congruence.
    + exists (ainsert b l q1), (ainsert b l q2), [f]. repeat split. rewrite !alookup_ainsert_same'. reflexivity.
    + exists q1, q2, []. repeat split. congruence.
Qed.

(* Isolation under backpressure: what session b is handed depends only on the frames for b and on b's own pace -
   not on what arrives for the other sessions nor on whether they ever take anything. *)
Theorem demux_isolation cap b : forall ops q1 q2,
  own q1 -> own q2 -> alookup b q1 = alookup b q2 ->
  filter (fun f => f_sid f =? b) (drun false cap q1 ops) =
  filter (fun f => f_sid f =? b) (drun false cap q2 (filter (concerns b) ops)).
Proof.
  induction ops as [|op ops IH]; intros q1 q2 Ho1 Ho2 Hq; [reflexivity|].
  cbn [drun filter]. destruct (concerns b op) eqn:Hc.
  - destruct (dstep_same cap q1 q2 op b Hc Hq) as (q1' & q2' & h & H1 & H2 & Hq').
    cbn [drun]. rewrite H1, H2. rewrite !filter_app. f_equal.
    apply IH; [exact (own_step false cap q1 op q1' h Ho1 H1)|exact (own_step false cap q2 op q2' h Ho2 H2)|exact Hq'].
  - destruct (dstep_went cap q1 op) as (q1' & h & H1). rewrite H1.
    destruct (dstep_other_own cap q1 op b q1' h Ho1 Hc H1) as [Hq1 Hh].
    rewrite filter_app, Hh. cbn [app].
    apply IH; [exact (own_step false cap q1 op q1' h Ho1 H1)|exact Ho2|congruence].
Qed.

(* the code before fix 6fd5f9f: session 1 never takes anything; once its queue is full the loop waits for it and session
   2, whose queue is empty and whose relay is ready, is handed nothing *)
Theorem waiting_demux_starves_neighbours :
  let fr sid := mk_frame None sid [7] in
  let ops := [Deliver (fr 1); Deliver (fr 1); Deliver (fr 1); Deliver (fr 2); Take 2; Deliver (fr 2); Take 2] in
  drun true 2 [(1, []); (2, [])] ops = [] /\
  drun false 2 [(1, []); (2, [])] ops = [fr 2; fr 2].
Proof. split; vm_compute; reflexivity. Qed.

(* ---- frames inline on a stream -------------------------------------------------------------------------------- *)
From RP Require Import Stream StreamProofs CodecProofs.

Lemma read_head_encoded f e rest :
  frame_ok f -> encode_frame f = Ok e -> read_head (e ++ rest) = Ok (Some (len e)).
Proof.
  intros [Ha Hs] He. unfold encode_frame in He.
  destruct (encodable f) eqn:Henc; [|discriminate].
  assert (Hbs : e = make_header f ++ f_body f) by (injection He; auto). subst e. clear He.
  unfold encodable in Henc. apply andb_true_iff in Henc. destruct Henc as [_ Hb]. apply N.leb_le in Hb.
  pose proof (encode_address_len _ Ha) as Hal.
  unfold make_header. set (a := encode_address (f_addr f)) in *.
  rewrite (N.mod_small (len a)) by lia. rewrite (N.mod_small (len (f_body f))) by lia.
  rewrite <- !app_assoc.
  set (tail := a ++ f_body f ++ rest).
  destruct (hdr_parts (f_sid f) (len a) (len (f_body f)) tail) as (H0 & H4 & H8 & H10 & H12 & H12k).
  cbv zeta in H0, H4, H8, H10, H12, H12k.
  unfold read_head.
  assert (Hlen : len (MAGIC ++ u32_be (f_sid f) ++ u16_be (len a) ++ u16_be (len (f_body f)) ++ tail)
                 = 12 + len a + len (f_body f) + len rest).
  { unfold len, tail. rewrite !app_length, len_u32, !len_u16. change (length MAGIC) with 4%nat. lia. }
  rewrite Hlen. destruct (N.ltb_spec (12 + len a + len (f_body f) + len rest) 12); [lia|].
  rewrite H0, H8, H10. change (bytes_eqb MAGIC MAGIC) with true. cbn [negb].
  rewrite !u16_roundtrip by lia.
  do 2 f_equal. unfold len. rewrite !app_length, len_u32, !len_u16. change (length MAGIC) with 4%nat. lia.
Qed.

Lemma sfr_all_encoded : forall fs bs,
  Forall frame_ok fs -> encode_all fs = Ok bs -> sfr_all (S (length fs)) bs [] = (fs, Ok tt).
Proof.
  induction fs as [|f fs IH]; intros bs Hok He.
  - cbn in He. injection He as <-. reflexivity.
  - cbn [encode_all] in He.
    destruct (encode_frame f) as [e|x|x] eqn:Hf; cbn [obind] in He; try discriminate.
    destruct (encode_all fs) as [r|x|x] eqn:Hr; cbn [obind] in He; try discriminate.
    injection He as <-. inversion Hok as [|? ? Hf_ok Hfs_ok]; subst.
    cbn [length]. change (sfr_all (S (S (length fs))) (e ++ r) []) with
      (match sfr_read (e ++ r) [] with
       | (Ok (Some fr), rem', cs') => let '(l, x) := sfr_all (S (length fs)) rem' cs' in (fr :: l, x)
       | (Ok None, _, _) => ([], Ok tt)
       | (Err x, _, _) => ([], Err x)
       | (Panic s, _, _) => ([], Panic s)
       end).
    assert (Hrd : sfr_read (e ++ r) [] = (Ok (Some f), r, [])).
    { cbn [sfr_read]. rewrite (read_head_encoded f e r Hf_ok Hf).
      assert (Hle : (len e <=? len (e ++ r)) = true) by (apply N.leb_le; unfold len; rewrite app_length; lia).
      rewrite Hle.
      replace (N.to_nat (len e)) with (length e) by (unfold len; lia).
      rewrite firstn_len_app, skipn_len_app.
      rewrite <- (app_nil_r e) at 1. rewrite (frame_roundtrip f e [] Hf_ok Hf). reflexivity. }
    rewrite Hrd. rewrite (IH r Hfs_ok eq_refl). reflexivity.
Qed.

(* Any frames, any segmentation of the stream: the reader delivers exactly the frames that were written, in order,
   and then a clean end of stream. *)
Theorem inline_stream_exact fs bs cs :
  Forall frame_ok fs -> encode_all fs = Ok bs -> wf_chunks cs -> concat cs = bs ->
  sfr_all (S (length fs)) [] cs = (fs, Ok tt).
Proof.
  intros Hok He Hwf Hc. rewrite (frame_reader_stitching (S (length fs)) cs [] Hwf). cbn [app]. rewrite Hc.
  apply sfr_all_encoded; assumption.
Qed.
