From RP Require Import Base Target MiluSyntax MiluParser MiluDoc MiluEval Dispatch Reload.

Section Proofs.
Variable parse_src : bytes -> pres expr.
Variable regex_match : bytes -> bytes -> option bool.
Variable cidr_match_text : bytes -> bytes -> bool.
Variable fuel : nat.
Variable rq0 : request.
Variable conns : list connector.

Notation set_rules := (set_rules parse_src regex_match cidr_match_text fuel rq0 conns).
Notation init_rule := (init_rule parse_src regex_match cidr_match_text fuel rq0).
Notation rstep := (rstep parse_src regex_match cidr_match_text fuel rq0 conns).
Notation do_set := (do_set parse_src regex_match cidr_match_text fuel rq0 conns).

Definition target_known (r : rule) : bool :=
  bytes_eq (r_target r) DENY || match find_conn (r_target r) conns with Some _ => true | None => false end.

(* set_rules succeeds exactly when every rule compiles, type-checks to boolean and names deny or
   an existing connector *)
Theorem set_rules_ok_iff srcs rs :
  set_rules srcs = Ok rs <-> map_o init_rule srcs = Ok rs /\ forallb target_known rs = true.
Proof.
  unfold Dispatch.set_rules. destruct (map_o init_rule srcs) as [rs'| |]; cbn [obind].
  - fold target_known. destruct (forallb target_known rs') eqn:E; split.
    + intros H. inversion H; subst. auto.
    + intros [H _]. inversion H; subst. reflexivity.
    + discriminate.
    + intros [H H2]. inversion H; subst. congruence.
  - split; [discriminate|intros [H _]; discriminate].
  - split; [discriminate|intros [H _]; discriminate].
Qed.

(* an invalid rule at ANY position makes the whole replacement fail *)
Lemma map_o_fails_at {A B} (f : A -> outcome B) pre x post :
  (forall b, f x <> Ok b) -> forall l, map_o f (pre ++ x :: post) <> Ok l.
Proof.
  intros Hx. induction pre as [|p pre IH]; intros l; cbn [app map_o].
  - destruct (f x) eqn:E; cbn [obind]; try discriminate. exfalso. eapply Hx; eauto.
  - destruct (f p); cbn [obind]; try discriminate.
    destruct (map_o f (pre ++ x :: post)) eqn:E; cbn [obind]; try discriminate.
    exfalso. eapply IH; eauto.
Qed.

Theorem invalid_rule_anywhere_rejects pre x post rs :
  (forall r, init_rule x <> Ok r) -> set_rules (pre ++ x :: post) <> Ok rs.
Proof.
  intros Hx H. apply set_rules_ok_iff in H. destruct H as [H _].
  eapply map_o_fails_at; eauto.
Qed.

(* all or nothing *)
Theorem set_rules_all_or_nothing st srcs st' o :
  do_set st srcs = (st', o) ->
  (o = RoSet true /\ exists rs, set_rules srcs = Ok rs /\ st' = mk_rstate rs srcs) \/
  (o = RoSet false /\ st' = st /\ forall rs, set_rules srcs <> Ok rs).
Proof.
  unfold Reload.do_set. destruct (set_rules srcs) as [rs| |] eqn:E; intros H; inversion H; subst.
  - left. eauto.
  - right. repeat split; congruence.
  - right. repeat split; congruence.
Qed.

(* a probe is decided by the list in force at that moment, nothing else *)
Theorem probe_uses_current_rules st rq feature :
  rstep st (RProbe rq feature) =
  (st, RoTrace (process_request regex_match cidr_match_text fuel rq (rs_rules st) conns feature [])).
Proof. reflexivity. Qed.

(* state reachable by any op sequence: the source list in force always compiles to the rules in force *)
Definition consistent (st : rstate) : Prop := set_rules (rs_srcs st) = Ok (rs_rules st).

Lemma rstep_consistent st op : consistent st -> consistent (fst (rstep st op)).
Proof.
  intros Hc. destruct op as [srcs| |rq f]; cbn [Reload.rstep fst].
  - unfold Reload.do_set. destruct (set_rules srcs) eqn:E; cbn [fst]; auto.
  - unfold Reload.do_set. rewrite Hc. cbn [fst]. exact Hc.
  - exact Hc.
Qed.

(* reading the rules and posting them back unchanged leaves the state, hence every later
   decision, unchanged *)
Theorem get_post_identity st : consistent st -> rstep st RIdentity = (st, RoSet true).
Proof.
  intros Hc. cbn [Reload.rstep]. unfold Reload.do_set. rewrite Hc. destruct st; reflexivity.
Qed.

End Proofs.
