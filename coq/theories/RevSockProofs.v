From RP Require Import Base RevSock.
Local Open Scope nat_scope.

(* ---- isolation: with the filter, whatever the kernel queued where, a session only ever forwards its own client's datagrams -- *)
Definition own_only (st : rstate) : Prop := Forall (fun h => snd (fst h) = fst (fst h)) (r_handed st).

Lemma rstep_own_only st ev : own_only st -> own_only (rstep true st ev).
Proof.
  intros H. destruct ev as [src p| |src|k]; cbn [rstep].
  - destruct (push_conn src p (r_socks st)); [exact H|]. destruct (push_unconn src p (r_socks st)) as [[l f]|]; exact H.
  - destruct (r_lq st) as [|[src p] q]; [exact H|]. constructor; [reflexivity|exact H].
  - exact H.
  - destruct (pop_sock k (r_socks st)) as [[[src p] l]|]; [|exact H].
    cbn [andb]. destruct (N.eqb_spec src k) as [->|Hne]; cbn [negb].
    + constructor; [reflexivity|exact H].
    + exact H.
Qed.

Theorem session_forwards_only_its_client : forall evs, own_only (rrun true evs).
Proof.
  intros evs. unfold rrun.
  assert (G : forall st, own_only st -> own_only (fold_left (rstep true) evs st)).
  { induction evs as [|ev evs IH]; intros st H; [exact H|]. cbn [fold_left]. apply IH. apply rstep_own_only. exact H. }
  apply G. constructor.
Qed.

(* without the filter: client 2's datagram arrives inside client 1's window, session 1 forwards it as its own *)
Theorem unfiltered_reader_crosses_sessions :
  let evs := [Arrive 1 [10%N]; AcceptBind; Arrive 2 [20%N]; AcceptConnect 1; ReadStep 1] in
  In (1%N, 2%N, [20%N]) (r_handed (rrun false evs)) /\ r_handed (rrun true evs) = [(1%N, 1%N, [10%N])].
Proof. split; vm_compute; auto. Qed.

(* ---- loss: nothing is ignored unless a datagram arrived inside another client's window (the known-finding class) ----------- *)
Definition foreign_in (s : ssock) : nat := length (filter (fun d => negb (N.eqb (fst d) (ss_owner s))) (ss_q s)).
Definition foreign_queued (l : list ssock) : nat := fold_right (fun s n => foreign_in s + n) 0 l.
(* connected sockets only ever receive from their owner *)
Definition acct (st : rstate) : Prop := length (r_dropped st) + foreign_queued (r_socks st) = r_misrouted st.

Lemma fq_cons s r : foreign_queued (s :: r) = foreign_in s + foreign_queued r.
Proof. reflexivity. Qed.

Lemma foreign_in_snoc s d :
  foreign_in (mk_ss (ss_owner s) (ss_conn s) (ss_q s ++ [d])) = foreign_in s + (if negb (N.eqb (fst d) (ss_owner s)) then 1 else 0).
Proof. unfold foreign_in. cbn [ss_owner ss_q]. rewrite filter_app, app_length. cbn [filter]. destruct (negb _); reflexivity. Qed.

Lemma push_conn_foreign src p : forall l l', push_conn src p l = Some l' -> foreign_queued l' = foreign_queued l.
Proof.
  induction l as [|s r IH]; intros l' H; cbn [push_conn] in H; [discriminate|].
  destruct (ss_conn s && N.eqb (ss_owner s) src) eqn:E.
  - injection H as <-. apply andb_true_iff in E. destruct E as [Ec Eo]. apply N.eqb_eq in Eo.
    rewrite !fq_cons. f_equal.
    unfold foreign_in. cbn [ss_owner ss_q]. rewrite filter_app, app_length. cbn [filter fst].
    rewrite Eo, N.eqb_refl. cbn [negb length]. lia.
  - destruct (push_conn src p r) as [r'|] eqn:Er; [|discriminate]. injection H as <-.
    rewrite !fq_cons. f_equal. apply (IH r' eq_refl).
Qed.

Lemma push_unconn_foreign src p : forall l l' f, push_unconn src p l = Some (l', f) ->
  foreign_queued l' = foreign_queued l + (if f then 1 else 0).
Proof.
  induction l as [|s r IH]; intros l' f H; cbn [push_unconn] in H; [discriminate|].
  destruct (negb (ss_conn s)) eqn:E.
  - injection H as <- <-. rewrite !fq_cons.
    unfold foreign_in at 1. cbn [ss_owner ss_q]. rewrite filter_app, app_length. cbn [filter fst].
    rewrite (N.eqb_sym src (ss_owner s)). destruct (N.eqb (ss_owner s) src); cbn [negb length]; unfold foreign_in; lia.
  - destruct (push_unconn src p r) as [[r' f']|] eqn:Er; [|discriminate]. injection H as <- <-.
    rewrite !fq_cons. rewrite (IH r' f' eq_refl). lia.
Qed.

Lemma connect_sock_foreign src : forall l, foreign_queued (connect_sock src l) = foreign_queued l.
Proof.
  induction l as [|s r IH]; [reflexivity|]. cbn [connect_sock].
  destruct (N.eqb_spec (ss_owner s) src) as [E|E]; rewrite !fq_cons.
  - f_equal. unfold foreign_in. cbn [ss_owner ss_q]. rewrite E. reflexivity.
  - f_equal. exact IH.
Qed.

Lemma pop_sock_foreign k : forall l d l', pop_sock k l = Some (d, l') ->
  foreign_queued l = foreign_queued l' + (if negb (N.eqb (fst d) k) then 1 else 0).
Proof.
  induction l as [|s r IH]; intros d l' H; cbn [pop_sock] in H; [discriminate|].
  destruct (N.eqb_spec (ss_owner s) k) as [E|E].
  - destruct (ss_q s) as [|d0 q] eqn:Eq; [discriminate|]. injection H as <- <-.
    rewrite !fq_cons. unfold foreign_in at 1 2. cbn [ss_owner ss_q]. rewrite Eq. cbn [filter].
    rewrite E. destruct (negb (N.eqb (fst d0) k)); cbn [length]; lia.
  - destruct (pop_sock k r) as [[d1 r']|] eqn:Er; [|discriminate]. injection H as <- <-.
    rewrite !fq_cons. rewrite (IH d1 r' eq_refl). lia.
Qed.

Lemma rstep_acct st ev : acct st -> acct (rstep true st ev).
Proof.
  unfold acct. intros H. destruct ev as [src p| |src|k]; cbn [rstep].
  - destruct (push_conn src p (r_socks st)) as [l|] eqn:E1; cbn [r_dropped r_socks r_misrouted].
    + rewrite (push_conn_foreign src p _ _ E1). exact H.
    + destruct (push_unconn src p (r_socks st)) as [[l f]|] eqn:E2; cbn [r_dropped r_socks r_misrouted]; [|exact H].
      rewrite (push_unconn_foreign src p _ _ _ E2). destruct f; lia.
  - destruct (r_lq st) as [|[src p] q]; [exact H|]. cbn [r_dropped r_socks r_misrouted].
    destruct (has_sock src (r_socks st)); [exact H|]. rewrite !fq_cons. unfold foreign_in. cbn [ss_q filter length]. lia.
  - cbn [r_dropped r_socks r_misrouted]. rewrite connect_sock_foreign. exact H.
  - destruct (pop_sock k (r_socks st)) as [[[src p] l]|] eqn:E; [|exact H].
    pose proof (pop_sock_foreign k _ _ _ E) as Hf. cbn [fst] in Hf.
    cbn [andb]. destruct (negb (N.eqb src k)); cbn [r_dropped r_socks r_misrouted length]; lia.
Qed.

Lemma rrun_acct evs : acct (rrun true evs).
Proof.
  unfold rrun.
  assert (G : forall st, acct st -> acct (fold_left (rstep true) evs st)).
  { induction evs as [|ev evs IH]; intros st H; [exact H|]. cbn [fold_left]. apply IH. apply rstep_acct. exact H. }
  apply G. reflexivity.
Qed.

(* outside the known class no reader ever ignores a datagram: what arrived is handed on or still queued *)
Theorem nothing_ignored_outside_the_window_class : forall evs,
  ~ KnownClass_C10_window evs -> r_dropped (rrun true evs) = [].
Proof.
  intros evs Hk. unfold KnownClass_C10_window in Hk. pose proof (rrun_acct evs) as Ha. unfold acct in Ha.
  destruct (r_dropped (rrun true evs)); [reflexivity|]. cbn [length] in Ha. lia.
Qed.

(* the class is real: a datagram that arrives inside another client's window is lost *)
Theorem window_class_loses_a_datagram :
  let evs := [Arrive 1 [10%N]; AcceptBind; Arrive 2 [20%N]; AcceptConnect 1; ReadStep 1; AcceptBind; ReadStep 2] in
  KnownClass_C10_window evs /\ r_dropped (rrun true evs) = [(2%N, [20%N])] /\
  ~ In [20%N] (map snd (r_handed (rrun true evs))).
Proof. split; [vm_compute; lia|]. split; [vm_compute; reflexivity|]. vm_compute. intuition discriminate. Qed.
