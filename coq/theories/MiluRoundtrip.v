(* Unbounded parse/print round trip for the milu expression parser model (MiluParser.v).

   WHAT IS PROVED (no axioms, nothing admitted; `Print Assumptions roundtrip` at the end of the file
   reports "Closed under the global context"):

     Theorem roundtrip : forall t, m_wf t ->
       parse levels parse2_table parse1_table unary_tags MiluDoc.top_rule ternary_cond_rule (m_print t)
       = POk (m_denote t) [].

   i.e. the FULL theorem of the task, with the fuel that `parse` itself supplies (64 * (length src + 2)),
   for the parser instantiated with Gen_ladder (the same instance as MiluDoc.P), for every tree built from
   atoms, binary operators of every ladder level, unary operators, postfix index / access / call (any
   number of arguments), and the conditional `c ? y : n`, printed with all tokens separated by one
   space and with only the parentheses required by precedence / left associativity:
     - binary level p: left operand parenthesised iff strictly looser, right operand iff looser or equal;
     - unary operand parenthesised iff binary / conditional; postfix base iff unary / binary / conditional;
     - condition of ?: parenthesised iff it is a conditional; branches, index and arguments never.
   Also `roundtrip_fuel` (same statement for parse_with_fuel f under f >= m_fuel_bound t = wt t + 47,
   wt linear in the size of the tree).

   The proof is GENERIC in the ladder: Section Comb has the ladder as variables and assumes
     - the lv_next chain (Hfind, Hnext0, HnextS, Hun: level k+1 continues with level k, the tightest
       level with a name that is not a level, i.e. the unary rule), top_rule = cond_rule = loosest level;
     - three boolean checks decided by vm_compute for Gen_ladder:
         tags_ok   (every tag: no space, harmless first character, ordered choice selects it when it is
                    the whole token, and parse2 maps it),
         stop_ok   (for every level k and every token that may follow a complete level-k operand, a
                    closer or a tag of a looser level, the tags of level k either do not match, or match
                    a proper prefix and leave a character that cannot start an operand: the content of
                    MiluDoc.ordered_ok / cross_ok in exactly the form the proof needs),
         unary_ok  (unary tags: mapped by parse1, first character starts an operand and is not
                    alphanumeric / `_` / `(`);
     - at most 38 levels (for the fuel of `parse`).
   `roundtrip_generic` / `roundtrip_fuel_generic` are the generic statements.

   SIDE CONDITIONS (m_wf):
     - TAtom x: x is an identifier [A-Za-z_][A-Za-z0-9_]* whose FIRST character is not one of t, f, i, l
       (so it cannot begin with the keywords true / false / if / let; word operators and, or, xor are no
       problem for atoms because operators are only looked for after a complete operand);
     - TInt ds: ds is a non-empty list of decimal digits with value <= i64::MAX (leading zeros allowed;
       `TNum n` builds the canonical numeral of n : N, see wf_TNum / denote_TNum);
     - TBin m j: m < number of levels (index in Gen_ladder.levels, 0 = tightest = op_6), j < number of
       tags of that level; TUn j: j < number of unary tags;
     - TAccess _ field: any identifier [A-Za-z_][A-Za-z0-9_]*;
     - word operators are printed with the lower-case spelling of the ladder.
   NOT covered: strings, booleans, arrays, tuples, `if then else`, `let`, template strings, comments
   inside the printed text (RtBlank.v proves separately that skip_blank ignores white space and closed
   comments: skip_blank_ws, skip_blank_closed).

   Method: semantic predicates (Op0 / Rule k / Next k / Un / Post / Val) saying that a text parses to
   an expression at a grammar level for every admissible continuation, in continuation-passing style for
   the two left-folding loops, with explicit fuel parameters; one combinator lemma per grammar
   construct; then an induction on trees (all_good) and a linear bound of the fuel by the text length. *)
From RP Require Import Base Target MiluSyntax MiluParser MiluDoc RtBlank RtEqs RtLeaf.
From Coq Require Import ZArith String Lia.

Section Comb.
Variable levels : list level.
Variable parse2_table : list (string * string).
Variable parse1_table : list (string * string).
Variable unary_tags : list string.
Variable top_rule : string.
Variable cond_rule : string.
Variable uname : string.            (* the name of the unary level: lv_next of the tightest level *)

Notation p_op0' := (p_op0 levels parse2_table parse1_table unary_tags top_rule cond_rule).
Notation p_if' := (p_if levels parse2_table parse1_table unary_tags top_rule cond_rule).
Notation p_let' := (p_let levels parse2_table parse1_table unary_tags top_rule cond_rule).
Notation p_rule' := (p_rule levels parse2_table parse1_table unary_tags top_rule cond_rule).
Notation p_level_loop' := (p_level_loop levels parse2_table parse1_table unary_tags top_rule cond_rule).
Notation p_unary' := (p_unary levels parse2_table parse1_table unary_tags top_rule cond_rule).
Notation p_postfix' := (p_postfix levels parse2_table parse1_table unary_tags top_rule cond_rule).
Notation p_postfix_loop' := (p_postfix_loop levels parse2_table parse1_table unary_tags top_rule cond_rule).
Notation p_list' := (p_list levels parse2_table parse1_table unary_tags top_rule cond_rule).
Notation p_list_more' := (p_list_more levels parse2_table parse1_table unary_tags top_rule cond_rule).
Notation p_op_value' := (p_op_value levels parse2_table parse1_table unary_tags top_rule cond_rule).
Notation p_value' := (p_value levels parse2_table parse1_table unary_tags top_rule cond_rule).
Notation p_array' := (p_array levels parse2_table parse1_table unary_tags top_rule cond_rule).
Notation p_tuple' := (p_tuple levels parse2_table parse1_table unary_tags top_rule cond_rule).

Definition dummy_level := mk_level "" "" [].
Definition lvl (k : nat) : level := nth k levels dummy_level.
Definition NL : nat := List.length levels.
Definition tagb (t : string * bool) : bytes := bytes_of_string (fst t).
Definition level_toks (lv : level) : list bytes := map tagb (lv_tags lv).
Definition closers0 : list bytes := [[41]; [93]; [44]; [58]].      (* ) ] , : *)
Definition closers : list bytes := [63] :: closers0.               (* ? *)
Definition toks_from (k : nat) : list bytes := closers ++ flat_map level_toks (skipn k levels).
Definition utags : list (string * bool) := map (fun t => (t, false)) unary_tags.

Definition tok_ok (tk : bytes) : bool :=
  match tk with
  | c :: tk' => nonblank c tk' && negb (c =? 91) && negb (c =? 46) && negb (c =? 40)
  | [] => false
  end.

Definition stop_tok (tags : list (string * bool)) (tk : bytes) : bool :=
  match match_tags tags tk with
  | None => true
  | Some (_, c :: _) => negb (operand_start c)
  | Some (_, []) => false
  end.

Definition beq (a b : bytes) : bool := if list_eq_dec N.eq_dec a b then true else false.
Lemma beq_eq a b : beq a b = true -> a = b.
Proof. unfold beq. destruct (list_eq_dec N.eq_dec a b); [auto|discriminate]. Qed.

Definition tag_self_ok (lv : level) (t : string * bool) : bool :=
  match match_tags (lv_tags lv) (tagb t) with
  | Some (op, []) => beq op (tagb t) && match lookup2 parse2_table op with Some _ => true | None => false end
  | _ => false
  end.

Definition tags_ok : bool :=
  forallb (fun lv => forallb (fun t => nospace (tagb t) && tok_ok (tagb t) && tag_self_ok lv t) (lv_tags lv)) levels.

Definition stop_ok : bool :=
  forallb (fun k => forallb (stop_tok (lv_tags (lvl k))) (toks_from (S k))) (seq 0 NL).

(* head of an operand at the op_0 level: not a blank, not `i`/`l` (keywords if / let) *)
Definition hd0 (c : N) : bool :=
  negb (is_space c) && negb (c =? 35) && negb (c =? 47) && negb (c =? 105) && negb (c =? 108).

Definition unary_self_ok (u : string) : bool :=
  let ub := bytes_of_string u in
  match match_tags utags ub with
  | Some (op, []) => beq op ub && match lookup1 parse1_table op with Some _ => true | None => false end
  | _ => false
  end.

Definition unary_ok : bool :=
  forallb (fun u => let ub := bytes_of_string u in
    nospace ub &&
    match ub with
    | c :: r => hd0 c && operand_start c && negb (is_alnum c || (c =? 95) || (c =? 40))
    | [] => false
    end && unary_self_ok u) unary_tags.

Hypothesis Hfind : forall k, (k < NL)%nat -> find_level levels (lv_name (lvl k)) = Some (lvl k).
Hypothesis Hnext0 : lv_next (lvl 0) = uname.
Hypothesis HnextS : forall k, (S k < NL)%nat -> lv_next (lvl (S k)) = lv_name (lvl k).
Hypothesis Hun : find_level levels uname = None.
Hypothesis Hpos : (0 < NL)%nat.
Hypothesis Htop : top_rule = lv_name (lvl (NL - 1)).
Hypothesis Hcond : cond_rule = lv_name (lvl (NL - 1)).
Hypothesis Htags : tags_ok = true.
Hypothesis Hstop : stop_ok = true.
Hypothesis Hunary : unary_ok = true.

(* ---- consequences of the boolean checks ------------------------------------------------ *)

Lemma lvl_in k : (k < NL)%nat -> In (lvl k) levels.
Proof. intros H. apply nth_In. exact H. Qed.

Lemma tag_facts lv t : In lv levels -> In t (lv_tags lv) ->
  nospace (tagb t) = true /\ tok_ok (tagb t) = true /\
  match_tags (lv_tags lv) (tagb t) = Some (tagb t, []) /\
  exists name, lookup2 parse2_table (tagb t) = Some name.
Proof.
  intros Hl Ht. pose proof Htags as H. unfold tags_ok in H.
  rewrite forallb_forall in H. specialize (H lv Hl). rewrite forallb_forall in H. specialize (H t Ht).
  apply andb_true_iff in H. destruct H as [H H3]. apply andb_true_iff in H. destruct H as [H1 H2].
  repeat split; auto.
  - unfold tag_self_ok in H3. destruct (match_tags (lv_tags lv) (tagb t)) as [[op rem]|]; [|discriminate].
    destruct rem; [|discriminate]. apply andb_true_iff in H3. destruct H3 as [E _].
    apply beq_eq in E. subst op. reflexivity.
  - unfold tag_self_ok in H3. destruct (match_tags (lv_tags lv) (tagb t)) as [[op rem]|]; [|discriminate].
    destruct rem; [|discriminate]. apply andb_true_iff in H3. destruct H3 as [E L].
    apply beq_eq in E. subst op. destruct (lookup2 parse2_table (tagb t)) as [n|]; [eauto|discriminate].
Qed.

Lemma level_nospace lv : In lv levels ->
  forallb (fun t => nospace (bytes_of_string (fst t))) (lv_tags lv) = true.
Proof.
  intros Hl. apply forallb_forall. intros t Ht. apply (tag_facts lv t Hl Ht).
Qed.

Lemma level_tok_ok lv : In lv levels -> forallb (fun t => tok_ok (tagb t)) (lv_tags lv) = true.
Proof.
  intros Hl. apply forallb_forall. intros t Ht. apply (tag_facts lv t Hl Ht).
Qed.

Lemma match_tags_empty tags : forallb (fun t => tok_ok (tagb t)) tags = true -> match_tags tags [] = None.
Proof.
  induction tags as [|[t nc] tags IH]; intros H; [reflexivity|].
  cbn [forallb] in H. apply andb_true_iff in H. destruct H as [H1 H2].
  cbn [match_tags]. unfold tagb in H1. cbn [fst] in H1.
  destruct (bytes_of_string t) as [|a t']; [discriminate|].
  destruct nc; cbn [tag tag_nc]; apply IH; exact H2.
Qed.

Lemma In_skipn {A} (x : A) k l : In x (skipn k l) -> In x l.
Proof. intros H. rewrite <- (firstn_skipn k l). apply in_or_app. right. exact H. Qed.

Lemma In_skipn_S {A} (x : A) : forall k l, In x (skipn (S k) l) -> In x (skipn k l).
Proof.
  induction k as [|k IH]; intros l H.
  - destruct l; [exact H|]. right. exact H.
  - destruct l as [|a l]; [exact H|]. cbn [skipn] in *. apply IH. exact H.
Qed.

Lemma skipn_lvl k : (k < NL)%nat -> skipn k levels = lvl k :: skipn (S k) levels.
Proof.
  unfold NL, lvl. generalize levels. induction k as [|k IH]; intros l H.
  - destruct l; [cbn in H; lia|reflexivity].
  - destruct l as [|a l]; [cbn in H; lia|]. cbn [List.length] in H.
    change (skipn (S k) (a :: l)) with (skipn k l). rewrite IH by lia. reflexivity.
Qed.

Lemma closers_ok tk : In tk closers -> tok_ok tk = true.
Proof. intros H. repeat (destruct H as [<-|H]; [reflexivity|]). destruct H. Qed.

Lemma toks_ok k tk : In tk (toks_from k) -> tok_ok tk = true.
Proof.
  unfold toks_from. intros H. apply in_app_or in H. destruct H as [H|H]; [apply closers_ok; exact H|].
  apply in_flat_map in H. destruct H as (lv & Hl & H). apply In_skipn in Hl.
  unfold level_toks in H. apply in_map_iff in H. destruct H as (t & <- & Ht).
  apply (tag_facts lv t Hl Ht).
Qed.

Lemma toks_mono k tk : In tk (toks_from (S k)) -> In tk (toks_from k).
Proof.
  unfold toks_from. intros H. apply in_or_app. apply in_app_or in H. destruct H as [H|H]; [left; exact H|right].
  apply in_flat_map in H. destruct H as (lv & Hl & H). apply in_flat_map. exists lv. split; [|exact H].
  apply In_skipn_S. exact Hl.
Qed.

Lemma toks_level k t : (k < NL)%nat -> In t (lv_tags (lvl k)) -> In (tagb t) (toks_from k).
Proof.
  intros Hk Ht. unfold toks_from. apply in_or_app. right. rewrite skipn_lvl by exact Hk.
  cbn [flat_map]. apply in_or_app. left. unfold level_toks. apply in_map. exact Ht.
Qed.

Lemma toks_closer k tk : In tk closers -> In tk (toks_from k).
Proof. intros H. unfold toks_from. apply in_or_app. left. exact H. Qed.

Lemma stop_fact k tk : (k < NL)%nat -> In tk (toks_from (S k)) -> stop_tok (lv_tags (lvl k)) tk = true.
Proof.
  intros Hk Ht. pose proof Hstop as H. unfold stop_ok in H. rewrite forallb_forall in H.
  specialize (H k). rewrite forallb_forall in H. apply H; [|exact Ht]. apply in_seq. lia.
Qed.

Lemma unary_facts u : In u unary_tags ->
  let ub := bytes_of_string u in
  nospace ub = true /\
  (exists c r, ub = c :: r /\ hd0 c = true /\ operand_start c = true /\
     (is_alnum c || (c =? 95) || (c =? 40)) = false) /\
  match_tags utags ub = Some (ub, []) /\ exists name, lookup1 parse1_table ub = Some name.
Proof.
  intros Hu ub. pose proof Hunary as H. unfold unary_ok in H. rewrite forallb_forall in H.
  specialize (H u Hu). cbv zeta in H. fold ub in H.
  apply andb_true_iff in H. destruct H as [H H3]. apply andb_true_iff in H. destruct H as [H1 H2].
  split; [exact H1|]. split.
  - destruct ub as [|c r]; [discriminate|]. exists c, r. split; [reflexivity|].
    apply andb_true_iff in H2. destruct H2 as [H2 H6]. apply andb_true_iff in H2. destruct H2 as [H4 H5].
    apply negb_true_iff in H6. auto.
  - unfold unary_self_ok in H3. fold ub in H3.
    destruct (match_tags utags ub) as [[op rem]|]; [|discriminate].
    destruct rem; [|discriminate]. apply andb_true_iff in H3. destruct H3 as [E L].
    apply beq_eq in E. subst op. split; [reflexivity|].
    destruct (lookup1 parse1_table ub) as [n|]; [eauto|discriminate].
Qed.

Lemma utags_nospace : forallb (fun t => nospace (bytes_of_string (fst t))) utags = true.
Proof.
  apply forallb_forall. intros t Ht. unfold utags in Ht. apply in_map_iff in Ht.
  destruct Ht as (u & <- & Hu). cbn [fst]. apply (unary_facts u Hu).
Qed.

(* no unary tag begins with c *)
Lemma match_tags_exact_free (us : list string) c r :
  (forall u, In u us -> exists a t, bytes_of_string u = a :: t /\ a <> c) ->
  match_tags (map (fun t => (t, false)) us) (c :: r) = None.
Proof.
  induction us as [|u us IH]; intros H; [reflexivity|].
  cbn [map match_tags]. destruct (H u (or_introl eq_refl)) as (a & t & E & Ha).
  rewrite E. cbn [tag]. destruct (N.eqb_spec a c) as [->|]; [congruence|].
  apply IH. intros u' Hu'. apply H. right. exact Hu'.
Qed.

Lemma match_utags_nonop c r : operand_start c = false -> match_tags utags (c :: r) = None.
Proof.
  intros Hc. apply match_tags_exact_free. intros u Hu.
  destruct (unary_facts u Hu) as (_ & (a & t & E & _ & Ho & _) & _).
  exists a, t. split; [exact E|]. intros ->. congruence.
Qed.

Lemma match_utags_operand c r : (is_alnum c || (c =? 95) || (c =? 40)) = true -> match_tags utags (c :: r) = None.
Proof.
  intros Hc. apply match_tags_exact_free. intros u Hu.
  destruct (unary_facts u Hu) as (_ & (a & t & E & _ & _ & Ho) & _).
  exists a, t. split; [exact E|]. intros ->. congruence.
Qed.


(* ---- dispatch on the head character ---------------------------------------------------- *)

Lemma hd0_nonblank c r : hd0 c = true -> nonblank c r = true.
Proof.
  unfold hd0, nonblank. intros H.
  apply andb_true_iff in H. destruct H as [H _]. apply andb_true_iff in H. destruct H as [H _].
  apply andb_true_iff in H. destruct H as [H H47]. apply andb_true_iff in H. destruct H as [Hs H35].
  rewrite Hs, H35. apply negb_true_iff in H47. rewrite H47. reflexivity.
Qed.

Lemma p_op_value_no40 f c r : nonblank c r = true -> c <> 40 ->
  p_op_value' (S f) (c :: r) = p_value' f (c :: r).
Proof.
  intros Hb Hc. rewrite p_op_value_S, skip_blank_nonblank by exact Hb. cbv zeta.
  lit_cases c; try reflexivity. exfalso; apply Hc; reflexivity.
Qed.

Lemma p_value_plain f c r : nonblank c r = true -> c <> 34 -> c <> 96 ->
  p_value' (S f) (c :: r) =
  match p_boolean (c :: r) with
  | PErr =>
    match p_integer (c :: r) with
    | PErr =>
      match p_identifier (c :: r) with
      | PErr => match p_array' f (c :: r) with PErr => p_tuple' f (c :: r) | x => x end
      | x => x
      end
    | x => x
    end
  | x => x
  end.
Proof.
  intros Hb H1 H2. rewrite p_value_S, skip_blank_nonblank by exact Hb. cbv zeta.
  rewrite p_string_no by assumption.
  lit_cases c; try reflexivity. exfalso; apply H2; reflexivity.
Qed.

Lemma p_postfix_loop_stop f acc i c r : skip_blank i = c :: r -> c <> 91 -> c <> 46 -> c <> 40 ->
  p_postfix_loop' (S f) acc i = POk acc i.
Proof.
  intros E H1 H2 H3. rewrite p_postfix_loop_S. cbv zeta. rewrite E.
  lit_cases c; try reflexivity; exfalso; (apply H1; reflexivity) || (apply H2; reflexivity) || (apply H3; reflexivity).
Qed.

Lemma p_postfix_loop_stop_nil f acc i : skip_blank i = [] -> p_postfix_loop' (S f) acc i = POk acc i.
Proof. intros E. rewrite p_postfix_loop_S. cbv zeta. rewrite E. reflexivity. Qed.

(* ---- a leading space is absorbed ------------------------------------------------------- *)

Lemma p_op0_sp f c r : nonblank c r = true -> p_op0' f (32 :: c :: r) = p_op0' f (c :: r).
Proof.
  intros H. destruct f; [reflexivity|]. rewrite !p_op0_S, skip_blank_sp, skip_blank_nonblank by exact H.
  reflexivity.
Qed.

Lemma p_unary_sp f c r : nonblank c r = true -> p_unary' f (32 :: c :: r) = p_unary' f (c :: r).
Proof.
  intros H. destruct f; [reflexivity|]. rewrite !p_unary_S, skip_blank_sp, skip_blank_nonblank by exact H.
  reflexivity.
Qed.

Lemma p_rule_sp f name c r : nonblank c r = true -> p_rule' f name (32 :: c :: r) = p_rule' f name (c :: r).
Proof.
  intros H. destruct f; [reflexivity|]. rewrite !p_rule_S.
  destruct (find_level levels name).
  - rewrite skip_blank_sp, skip_blank_nonblank by exact H. reflexivity.
  - apply p_unary_sp. exact H.
Qed.

(* ---- failure on a character that cannot start an operand ------------------------------- *)

Lemma nonop_facts c : operand_start c = false ->
  is_alnum c = false /\ c <> 95 /\ c <> 34 /\ c <> 96 /\ c <> 40 /\ c <> 91 /\
  is_space c = false /\ c <> 35 /\ c <> 47.
Proof.
  unfold operand_start. intros H.
  do 11 (apply orb_false_iff in H; destruct H as [H ?]).
  repeat match goal with K : (c =? _) = false |- _ => apply N.eqb_neq in K end.
  repeat split; assumption.
Qed.

Lemma nonop_nonblank c r : operand_start c = false -> nonblank c r = true.
Proof.
  intros H. destruct (nonop_facts c H) as (_ & _ & _ & _ & _ & _ & H1 & H2 & H3).
  unfold nonblank. rewrite H1. apply N.eqb_neq in H2, H3. rewrite H2, H3. reflexivity.
Qed.

Lemma alnum_split c : is_alnum c = false -> is_alpha c = false /\ is_dec c = false.
Proof. unfold is_alnum. intros H. apply orb_false_iff in H. exact H. Qed.

Lemma perr_value c r f : operand_start c = false -> (2 <= f)%nat -> p_value' f (c :: r) = PErr.
Proof.
  intros Hc Hf. pose proof (nonop_nonblank c r Hc) as NB.
  destruct (nonop_facts c Hc) as (Ha & H95 & H34 & H96 & H40 & H91 & _).
  destruct (alnum_split c Ha) as [Hal Hd].
  destruct f as [|[|f]]; try lia.
  rewrite p_value_plain by assumption.
  rewrite p_boolean_no; try assumption; try (intros ->; discriminate Ha).
  rewrite p_integer_no, p_identifier_no by assumption.
  rewrite p_array_S_no by assumption. apply p_tuple_S_no. assumption.
Qed.

Lemma perr_unary c r f : operand_start c = false -> (5 <= f)%nat -> p_unary' f (c :: r) = PErr.
Proof.
  intros Hc Hf. pose proof (nonop_nonblank c r Hc) as NB.
  destruct (nonop_facts c Hc) as (Ha & H95 & H34 & H96 & H40 & H91 & _).
  destruct f as [|[|[|f]]]; try lia.
  rewrite p_unary_S, skip_blank_nonblank by exact NB. cbv zeta.
  fold utags. rewrite match_utags_nonop by exact Hc.
  rewrite p_postfix_S, skip_blank_nonblank by exact NB.
  rewrite p_op_value_no40 by assumption.
  rewrite perr_value by (assumption || lia). reflexivity.
Qed.

Lemma perr_next c r : operand_start c = false -> forall k f, (k < NL)%nat -> (k + 6 <= f)%nat ->
  p_rule' f (lv_next (lvl k)) (c :: r) = PErr.
Proof.
  intros Hc. pose proof (nonop_nonblank c r Hc) as NB.
  induction k as [|k IH]; intros f Hk Hf; (destruct f as [|f]; [lia|]); rewrite p_rule_S.
  - rewrite Hnext0, Hun. apply perr_unary; [exact Hc|lia].
  - rewrite HnextS by exact Hk. rewrite Hfind by lia. cbv zeta.
    rewrite skip_blank_nonblank by exact NB. rewrite IH by lia. reflexivity.
Qed.

Lemma perr_rule c r k f : operand_start c = false -> (k < NL)%nat -> (k + 7 <= f)%nat ->
  p_rule' f (lv_name (lvl k)) (c :: r) = PErr.
Proof.
  intros Hc Hk Hf. destruct f as [|f]; [lia|]. rewrite p_rule_S, Hfind by exact Hk. cbv zeta.
  rewrite skip_blank_nonblank by (apply nonop_nonblank; exact Hc).
  rewrite perr_next by (assumption || lia). reflexivity.
Qed.

Lemma p_rule_name_eq n1 n2 f i : n1 = n2 -> p_rule' f n1 i = p_rule' f n2 i.
Proof. intros ->. reflexivity. Qed.

Lemma tag_head_ne a t c r : a <> c -> tag (a :: t) (c :: r) = None.
Proof. intros H. cbn [tag]. destruct (N.eqb_spec a c); [congruence|reflexivity]. Qed.

Lemma perr_op0 c r f : operand_start c = false -> (NL + 8 <= f)%nat -> p_op0' f (c :: r) = PErr.
Proof.
  intros Hc Hf. pose proof (nonop_nonblank c r Hc) as NB.
  destruct (nonop_facts c Hc) as (Ha & _).
  destruct f as [|[|f]]; try lia.
  rewrite p_op0_S, skip_blank_nonblank by exact NB. cbv zeta.
  rewrite p_if_S_noif.
  2:{ rewrite skip_blank_nonblank by exact NB. apply tag_head_ne. intros <-. discriminate Ha. }
  rewrite skip_blank_nonblank by exact NB. cbv zeta.
  rewrite (p_rule_name_eq cond_rule _ _ _ Hcond), perr_rule by (assumption || lia).
  rewrite p_let_S_nolet.
  2:{ rewrite skip_blank_nonblank by exact NB. apply tag_head_ne. intros <-. discriminate Ha. }
  rewrite (p_rule_name_eq top_rule _ _ _ Htop). apply perr_rule; (assumption || lia).
Qed.

(* ---- follow sets ----------------------------------------------------------------------- *)

Definition follow (k : nat) (rest : bytes) : Prop :=
  rest = [] \/ exists tk r, rest = 32 :: tk ++ r /\ sep r /\ In tk (toks_from k).
Definition follow0 (rest : bytes) : Prop :=
  rest = [] \/ exists tk r, rest = 32 :: tk ++ r /\ sep r /\ In tk closers0.

Lemma follow_sep k rest : follow k rest -> sep rest.
Proof. intros [->|(tk & r & -> & _)]; auto with rt. Qed.

Lemma follow_S k rest : follow (S k) rest -> follow k rest.
Proof.
  intros [->|(tk & r & -> & Hr & Ht)]; [left; reflexivity|right].
  exists tk, r. auto using toks_mono.
Qed.

Lemma follow_le k k' rest : (k <= k')%nat -> follow k' rest -> follow k rest.
Proof. induction 1 as [|m Hle IH]; [auto|]. intros Hf. apply IH. apply follow_S. exact Hf. Qed.

Lemma follow0_follow k rest : follow0 rest -> follow k rest.
Proof.
  intros [->|(tk & r & -> & Hr & Ht)]; [left; reflexivity|right].
  exists tk, r. repeat split; auto. apply toks_closer. right. exact Ht.
Qed.

Lemma follow_tok k tk r : sep r -> In tk (toks_from k) -> follow k (32 :: tk ++ r).
Proof. intros Hr Ht. right. exists tk, r. auto. Qed.

Lemma follow0_tok tk r : sep r -> In tk closers0 -> follow0 (32 :: tk ++ r).
Proof. intros Hr Ht. right. exists tk, r. auto. Qed.

Lemma nonblank_app c tk r : nonblank c tk = true -> sep r -> nonblank c (tk ++ r) = true.
Proof.
  unfold nonblank. intros H Hr. destruct tk as [|d tk]; [|exact H].
  cbn [app]. destruct Hr as [->|[r' ->]]; exact H.
Qed.

(* the shape of a non-empty follow: one space, then a token whose head is harmless *)
Lemma tok_skip tk r : tok_ok tk = true -> sep r ->
  exists c t, tk = c :: t /\ skip_blank (32 :: tk ++ r) = tk ++ r /\ skip_blank (tk ++ r) = tk ++ r /\
    c <> 91 /\ c <> 46 /\ c <> 40.
Proof.
  intros H Hr. destruct tk as [|c t]; [discriminate|]. exists c, t.
  cbn [tok_ok] in H. do 3 (apply andb_true_iff in H; destruct H as [H ?]).
  pose proof (nonblank_app c t r H Hr) as NB.
  repeat match goal with K : negb (c =? _) = true |- _ => apply negb_true_iff in K; apply N.eqb_neq in K end.
  cbn [app]. rewrite skip_blank_sp, skip_blank_nonblank by exact NB. repeat split; auto.
Qed.

(* ---- loops stop on a follow token ------------------------------------------------------ *)

Lemma level_loop_stop k rest acc g : (k < NL)%nat -> follow (S k) rest -> (NL + 7 <= g)%nat ->
  p_level_loop' g (lvl k) acc rest = POk acc rest.
Proof.
  intros Hk Hf Hg. destruct g as [|g]; [lia|]. rewrite p_level_loop_S.
  pose proof (lvl_in k Hk) as Hl.
  destruct Hf as [->|(tk & r & -> & Hr & Ht)].
  - rewrite skip_blank_nil, match_tags_empty by (apply level_tok_ok; exact Hl). reflexivity.
  - destruct (tok_skip tk r (toks_ok _ _ Ht) Hr) as (c & t & E & S1 & _).
    rewrite S1. rewrite match_tags_sep by (try apply level_nospace; assumption).
    pose proof (stop_fact k tk Hk Ht) as St. unfold stop_tok in St.
    destruct (match_tags (lv_tags (lvl k)) tk) as [[op rem]|]; [|reflexivity].
    destruct rem as [|c' rem]; [discriminate|]. apply negb_true_iff in St.
    cbn [app]. rewrite perr_next by (assumption || lia). reflexivity.
Qed.

Lemma postfix_loop_stop rest acc g : follow 0 rest -> (1 <= g)%nat -> p_postfix_loop' g acc rest = POk acc rest.
Proof.
  intros Hf Hg. destruct g as [|g]; [lia|].
  destruct Hf as [->|(tk & r & -> & Hr & Ht)].
  - apply p_postfix_loop_stop_nil. reflexivity.
  - destruct (tok_skip tk r (toks_ok _ _ Ht) Hr) as (c & t & E & S1 & _ & H1 & H2 & H3).
    subst tk. eapply p_postfix_loop_stop; eauto.
Qed.

Lemma ws_char_tok c tk r : sep r -> tok_ok (c :: tk) = true -> ws_char c (32 :: (c :: tk) ++ r) = Some (tk ++ r).
Proof.
  intros Hr Ht. destruct (tok_skip (c :: tk) r Ht Hr) as (c' & t & E & S1 & _).
  unfold ws_char. rewrite S1. cbn [app]. rewrite N.eqb_refl. reflexivity.
Qed.

(* ---- success paths of the dispatching functions ---------------------------------------- *)

Lemma p_postfix_loop_index f acc i r1 ix r2 r3 : skip_blank i = 91 :: r1 ->
  p_op0' f r1 = POk ix r2 -> ws_char 93 r2 = Some r3 ->
  p_postfix_loop' (S f) acc i = p_postfix_loop' f (op2 "Index"%string acc ix) r3.
Proof. intros E H1 H2. rewrite p_postfix_loop_S. cbv zeta. rewrite E, H1, H2. reflexivity. Qed.

Lemma p_postfix_loop_access f acc i r1 id r2 : skip_blank i = 46 :: r1 ->
  p_identifier r1 = POk id r2 ->
  p_postfix_loop' (S f) acc i = p_postfix_loop' f (op2 "Access"%string acc id) r2.
Proof. intros E H1. rewrite p_postfix_loop_S. cbv zeta. rewrite E, H1. reflexivity. Qed.

Lemma p_postfix_loop_call f acc i r1 args r2 r3 : skip_blank i = 40 :: r1 ->
  p_list' f r1 = POk args r2 -> ws_char 41 r2 = Some r3 ->
  p_postfix_loop' (S f) acc i = p_postfix_loop' f (ECall acc args) r3.
Proof. intros E H1 H2. rewrite p_postfix_loop_S. cbv zeta. rewrite E, H1, H2. reflexivity. Qed.

Lemma p_op_value_paren f i0 r0 e r1 r2 : skip_blank i0 = 40 :: r0 ->
  p_op0' f (skip_blank r0) = POk e r1 -> ws_char 41 r1 = Some r2 ->
  p_op_value' (S f) i0 = POk e r2.
Proof. intros E H1 H2. rewrite p_op_value_S. cbv zeta. rewrite E, H1, H2. reflexivity. Qed.

(* ---- semantic predicates: a text X parses to e at a given grammar level ----------------- *)

Definition starts (P : N -> bool) (X : bytes) : Prop := exists c X', X = c :: X' /\ P c = true.
Definition hdP (c : N) : bool := hd0 c && (is_alnum c || (c =? 95) || (c =? 40)).

Definition Op0 (C : nat) (X : bytes) (e : expr) : Prop :=
  starts hd0 X /\ forall rest f, follow0 rest -> (C <= f)%nat -> p_op0' f (X ++ rest) = POk e rest.

Definition Rule (k C D : nat) (X : bytes) (e : expr) : Prop :=
  starts hd0 X /\ forall rest e' r' f0 f, follow k rest ->
    (forall g, (f0 <= g)%nat -> p_level_loop' g (lvl k) e rest = POk e' r') ->
    (C <= f)%nat -> (f0 + D <= f)%nat -> p_rule' f (lv_name (lvl k)) (X ++ rest) = POk e' r'.

Definition Next (k C : nat) (X : bytes) (e : expr) : Prop :=
  starts hd0 X /\ forall rest f, follow k rest -> (C <= f)%nat ->
    p_rule' f (lv_next (lvl k)) (X ++ rest) = POk e rest.

Definition Un (C : nat) (X : bytes) (e : expr) : Prop :=
  starts hd0 X /\ forall rest f, follow 0 rest -> (C <= f)%nat -> p_unary' f (X ++ rest) = POk e rest.

Definition Post (C D : nat) (X : bytes) (e : expr) : Prop :=
  starts hdP X /\ forall rest e' r' f0 f, sep rest ->
    (forall g, (f0 <= g)%nat -> p_postfix_loop' g e rest = POk e' r') ->
    (C <= f)%nat -> (f0 + D <= f)%nat -> p_postfix' f (X ++ rest) = POk e' r'.

Definition Val (C : nat) (X : bytes) (e : expr) : Prop :=
  starts hdP X /\ forall rest f, sep rest -> (C <= f)%nat -> p_op_value' f (X ++ rest) = POk e rest.

Lemma hd0_facts c : hd0 c = true -> c <> 105 /\ c <> 108 /\ forall r, nonblank c r = true.
Proof.
  intros H. split; [|split]; [| |intros r; apply hd0_nonblank; exact H];
  unfold hd0 in H; apply andb_true_iff in H; destruct H as [H H108]; apply andb_true_iff in H; destruct H as [H H105];
  [apply negb_true_iff in H105; apply N.eqb_neq in H105; exact H105
  |apply negb_true_iff in H108; apply N.eqb_neq in H108; exact H108].
Qed.

Lemma hdP_hd0 c : hdP c = true -> hd0 c = true.
Proof. unfold hdP. intros H. apply andb_true_iff in H. apply H. Qed.

Lemma starts_hdP_hd0 X : starts hdP X -> starts hd0 X.
Proof. intros (c & X' & E & H). exists c, X'. split; [exact E|apply hdP_hd0; exact H]. Qed.

Lemma starts_skip X r : starts hd0 X -> skip_blank (X ++ r) = X ++ r /\ skip_blank (32 :: X ++ r) = X ++ r.
Proof.
  intros (c & X' & -> & H). destruct (hd0_facts c H) as (_ & _ & NB). cbn [app].
  rewrite skip_blank_sp, skip_blank_nonblank by apply NB. auto.
Qed.

Lemma starts_noif X r : starts hd0 X -> tag KW_IF (skip_blank (X ++ r)) = None /\ tag KW_LET (skip_blank (X ++ r)) = None.
Proof.
  intros HX. destruct (starts_skip X r HX) as [E _]. rewrite E.
  destruct HX as (c & X' & -> & H). destruct (hd0_facts c H) as (H1 & H2 & _). cbn [app].
  split; apply tag_head_ne; congruence.
Qed.

Lemma p_op0_lead f X r : starts hd0 X -> p_op0' f (32 :: X ++ r) = p_op0' f (X ++ r).
Proof. intros (c & X' & -> & H). cbn [app]. apply p_op0_sp. apply hd0_nonblank. exact H. Qed.
Lemma p_rule_lead f name X r : starts hd0 X -> p_rule' f name (32 :: X ++ r) = p_rule' f name (X ++ r).
Proof. intros (c & X' & -> & H). cbn [app]. apply p_rule_sp. apply hd0_nonblank. exact H. Qed.
Lemma p_unary_lead f X r : starts hd0 X -> p_unary' f (32 :: X ++ r) = p_unary' f (X ++ r).
Proof. intros (c & X' & -> & H). cbn [app]. apply p_unary_sp. apply hd0_nonblank. exact H. Qed.

(* weakening of the fuel parameters *)
Lemma Op0_weaken C C' X e : (C <= C')%nat -> Op0 C X e -> Op0 C' X e.
Proof. intros L [S H]. split; [exact S|]. intros. apply H; [assumption|lia]. Qed.
Lemma Rule_weaken k C D C' D' X e : (C <= C')%nat -> (D <= D')%nat -> Rule k C D X e -> Rule k C' D' X e.
Proof. intros L1 L2 [S H]. split; [exact S|]. intros. eapply H; eauto; lia. Qed.
Lemma Next_weaken k C C' X e : (C <= C')%nat -> Next k C X e -> Next k C' X e.
Proof. intros L [S H]. split; [exact S|]. intros. apply H; [assumption|lia]. Qed.
Lemma Un_weaken C C' X e : (C <= C')%nat -> Un C X e -> Un C' X e.
Proof. intros L [S H]. split; [exact S|]. intros. apply H; [assumption|lia]. Qed.
Lemma Post_weaken C D C' D' X e : (C <= C')%nat -> (D <= D')%nat -> Post C D X e -> Post C' D' X e.
Proof. intros L1 L2 [S H]. split; [exact S|]. intros. eapply H; eauto; lia. Qed.


Ltac norm_app := repeat (cbn [app]; rewrite <- app_assoc); cbn [app].

(* ---- atoms ------------------------------------------------------------------------------ *)

(* identifiers whose first character is a letter other than t, f, i, l (or an underscore) *)
Definition id_start (b : N) : bool :=
  (is_alpha b || (b =? 95)) && negb (b =? 116) && negb (b =? 102) && negb (b =? 105) && negb (b =? 108).

Lemma alpha_range b : is_alpha b = true -> (65 <= b <= 90) \/ (97 <= b <= 122).
Proof.
  unfold is_alpha, in_range. intros H. apply orb_true_iff in H.
  destruct H as [H|H]; apply andb_true_iff in H; destruct H as [H1 H2]; apply N.leb_le in H1, H2; lia.
Qed.

Ltac eqbs b :=
  repeat match goal with
  | |- context [b =? ?k] =>
    let E := fresh in assert (E : (b =? k) = false) by (apply N.eqb_neq; lia); rewrite E; clear E
  end.

Lemma id_start_facts b : id_start b = true ->
  hdP b = true /\ b <> 34 /\ b <> 96 /\ b <> 40 /\ b <> 116 /\ b <> 102 /\ is_dec b = false /\
  (is_alpha b || (b =? 95)) = true.
Proof.
  unfold id_start. intros H.
  apply andb_true_iff in H. destruct H as [H H108]. apply andb_true_iff in H. destruct H as [H H105].
  apply andb_true_iff in H. destruct H as [H H102]. apply andb_true_iff in H. destruct H as [Hab H116].
  apply negb_true_iff in H108, H105, H102, H116. apply N.eqb_neq in H108, H105, H102, H116.
  pose proof Hab as Hab0. apply orb_true_iff in Hab. destruct Hab as [Ha|Hu].
  - pose proof (alpha_range b Ha) as R.
    assert (Hd : is_dec b = false).
    { unfold is_dec, in_range. destruct (N.leb_spec 48 b), (N.leb_spec b 57); try reflexivity; lia. }
    repeat split; try lia; try assumption.
    unfold hdP, hd0, is_space, is_alnum. rewrite Ha. eqbs b. reflexivity.
  - apply N.eqb_eq in Hu. subst b. repeat split; try lia; reflexivity.
Qed.

Lemma dec_facts d : is_dec d = true ->
  hdP d = true /\ d <> 34 /\ d <> 96 /\ d <> 40 /\ d <> 116 /\ d <> 102.
Proof.
  intros H. pose proof (is_dec_facts d H) as R. repeat split; try lia.
  unfold hdP, hd0, is_space, is_alnum. rewrite H. eqbs d. rewrite orb_true_r. reflexivity.
Qed.

Lemma val_ident b a : id_start b = true -> forallb id_rest a = true -> Val 3 (b :: a) (EId (b :: a)).
Proof.
  intros Hb Ha. destruct (id_start_facts b Hb) as (HP & H34 & H96 & H40 & H116 & H102 & Hd & Hab).
  split; [exists b, a; auto|].
  intros rest f Hr Hf. destruct f as [|[|[|f]]]; try lia.
  pose proof (hd0_nonblank b (a ++ rest) (hdP_hd0 b HP)) as NB.
  cbn [app]. rewrite p_op_value_no40 by assumption.
  rewrite p_value_plain by assumption.
  rewrite p_boolean_no by assumption. rewrite p_integer_no by assumption.
  change (b :: a ++ rest) with ([] ++ (b :: a) ++ rest).
  rewrite p_identifier_ok; auto.
Qed.

Lemma val_int d ds : forallb is_dec (d :: ds) = true -> radix_val 10 (d :: ds) 0 <= I64_MAX ->
  Val 3 (d :: ds) (EInt (Z.of_N (radix_val 10 (d :: ds) 0))).
Proof.
  intros Hds Hv. pose proof Hds as Hds0. cbn [forallb] in Hds. apply andb_true_iff in Hds. destruct Hds as [Hd _].
  destruct (dec_facts d Hd) as (HP & H34 & H96 & H40 & H116 & H102).
  split; [exists d, ds; auto|].
  intros rest f Hr Hf. destruct f as [|[|[|f]]]; try lia.
  pose proof (hd0_nonblank d (ds ++ rest) (hdP_hd0 d HP)) as NB.
  cbn [app]. rewrite p_op_value_no40 by assumption.
  rewrite p_value_plain by assumption.
  rewrite p_boolean_no by assumption.
  change (d :: ds ++ rest) with ((d :: ds) ++ rest).
  rewrite p_integer_dec by assumption. reflexivity.
Qed.

Lemma ws_char_lit c r : sep r -> tok_ok [c] = true -> ws_char c (32 :: c :: r) = Some r.
Proof. intros Hr Ht. apply (ws_char_tok c [] r Hr Ht). Qed.

Lemma val_paren C X e : Op0 C X e -> Val (S C) (40 :: 32 :: X ++ [32; 41]) e.
Proof.
  intros [S H]. split; [exists 40, (32 :: X ++ [32; 41]); auto|].
  intros rest f Hr Hf. destruct f as [|f]; [lia|]. norm_app.
  eapply p_op_value_paren.
  - apply skip_blank_nonblank. reflexivity.
  - destruct (starts_skip X (32 :: 41 :: rest) S) as [_ E]. rewrite E.
    apply H; [|lia]. apply (follow0_tok [41] rest Hr). cbn. auto.
  - apply ws_char_lit; auto.
Qed.

(* ---- postfix chains --------------------------------------------------------------------- *)

Lemma post_of_val C X e : Val C X e -> Post (S C) 1 X e.
Proof.
  intros [S H]. split; [exact S|].
  intros rest e' r' f0 f Hr Hk HC HD. destruct f as [|f]; [lia|].
  rewrite p_postfix_S. destruct (starts_skip X rest (starts_hdP_hd0 X S)) as [E _]. rewrite E.
  rewrite H by (assumption || lia). apply Hk. lia.
Qed.

Lemma starts_app P X Y : starts P X -> starts P (X ++ Y).
Proof. intros (c & X' & -> & H). exists c, (X' ++ Y). auto. Qed.

Lemma post_index C D X e C2 Y ei C' D' : Post C D X e -> Op0 C2 Y ei ->
  (C <= C')%nat -> (C2 + D + 1 <= C')%nat -> (D + 1 <= D')%nat ->
  Post C' D' (X ++ 32 :: 91 :: 32 :: Y ++ [32; 93]) (op2 "Index"%string e ei).
Proof.
  intros [S H] [SY HY] L1 L2 L3. split; [apply starts_app; exact S|].
  intros rest e' r' f0 f Hr Hk HC HD. norm_app.
  apply (H (32 :: 91 :: 32 :: Y ++ 32 :: 93 :: rest) e' r' (Datatypes.S (Nat.max C2 f0)) f); auto with rt; try lia.
  intros g Hg. destruct g as [|g]; [lia|].
  erewrite p_postfix_loop_index.
  - apply Hk. lia.
  - apply skip_blank_sp. reflexivity.
  - rewrite p_op0_lead by exact SY. apply HY; [|lia]. apply (follow0_tok [93] rest Hr). cbn. auto.
  - apply ws_char_lit; auto.
Qed.

Lemma post_access C D X e b a D' : Post C D X e ->
  (is_alpha b || (b =? 95)) = true -> forallb id_rest a = true -> (D + 1 <= D')%nat ->
  Post C D' (X ++ 32 :: 46 :: 32 :: b :: a) (op2 "Access"%string e (EId (b :: a))).
Proof.
  intros [S H] Hb Ha L. split; [apply starts_app; exact S|].
  intros rest e' r' f0 f Hr Hk HC HD. norm_app.
  apply (H (32 :: 46 :: 32 :: b :: a ++ rest) e' r' (Datatypes.S f0) f); auto with rt; try lia.
  intros g Hg. destruct g as [|g]; [lia|].
  erewrite p_postfix_loop_access.
  - apply Hk. lia.
  - apply skip_blank_sp. reflexivity.
  - change (32 :: b :: a ++ rest) with ([32] ++ (b :: a) ++ rest). apply p_identifier_ok; auto.
Qed.

(* the tail of an argument list: ( , arg)* up to the closing parenthesis *)
Definition Args (C : nat) (X : bytes) (es : list expr) : Prop :=
  (X = [] \/ exists X', X = 32 :: 44 :: 32 :: X') /\
  forall acc rest f, sep rest -> (C <= f)%nat ->
    p_list_more' f acc (X ++ 32 :: 41 :: rest) = POk (rev acc ++ es) (32 :: 41 :: rest).

Lemma args_follow0 X rest : (X = [] \/ exists X', X = 32 :: 44 :: 32 :: X') -> sep rest ->
  follow0 (X ++ 32 :: 41 :: rest).
Proof.
  intros [->|(X' & ->)] Hr.
  - apply (follow0_tok [41] rest Hr). cbn. auto.
  - cbn [app]. apply (follow0_tok [44] (32 :: X' ++ 32 :: 41 :: rest)); auto with rt. cbn. auto.
Qed.

Lemma args_nil : Args 1 [] [].
Proof.
  split; [auto|]. intros acc rest f Hr Hf. destruct f as [|f]; [lia|].
  rewrite p_list_more_S. cbn [app]. unfold ws_char. rewrite skip_blank_sp by reflexivity.
  cbn. rewrite app_nil_r. reflexivity.
Qed.

Lemma args_cons C1 Y e1 C2 X es : Op0 C1 Y e1 -> Args C2 X es ->
  Args (S (Nat.max C1 C2)) (32 :: 44 :: 32 :: Y ++ X) (e1 :: es).
Proof.
  intros [SY HY] [Sh HX]. split; [right; eexists; reflexivity|].
  intros acc rest f Hr Hf. destruct f as [|f]; [lia|]. norm_app.
  rewrite p_list_more_S. rewrite ws_char_lit by auto with rt.
  rewrite p_op0_lead by exact SY. rewrite HY by (try apply args_follow0; auto; lia).
  rewrite HX by (auto; lia). cbn [rev]. rewrite <- app_assoc. reflexivity.
Qed.

Lemma post_call_nil C D X e C' D' : Post C D X e ->
  (C <= C')%nat -> (NL + 10 + D <= C')%nat -> (D + 1 <= D')%nat ->
  Post C' D' (X ++ [32; 40; 32; 41]) (ECall e []).
Proof.
  intros [S H] L1 L2 L3. split; [apply starts_app; exact S|].
  intros rest e' r' f0 f Hr Hk HC HD. norm_app.
  apply (H (32 :: 40 :: 32 :: 41 :: rest) e' r' (Datatypes.S (Nat.max (NL + 9) f0)) f); auto with rt; try lia.
  intros g Hg. destruct g as [|[|g]]; try lia.
  erewrite p_postfix_loop_call.
  - apply Hk. lia.
  - apply skip_blank_sp. reflexivity.
  - rewrite p_list_S. rewrite p_op0_sp by reflexivity. rewrite perr_op0 by (reflexivity || lia). reflexivity.
  - apply ws_char_lit; auto.
Qed.

Lemma post_call_cons C D X e C1 Y e1 C2 Xm es C' D' : Post C D X e -> Op0 C1 Y e1 -> Args C2 Xm es ->
  (C <= C')%nat -> (Nat.max C1 C2 + 2 + D <= C')%nat -> (D + 1 <= D')%nat ->
  Post C' D' (X ++ 32 :: 40 :: 32 :: Y ++ Xm ++ [32; 41]) (ECall e (e1 :: es)).
Proof.
  intros [S H] [SY HY] [Sh HX] L1 L2 L3. split; [apply starts_app; exact S|].
  intros rest e' r' f0 f Hr Hk HC HD. norm_app.
  apply (H (32 :: 40 :: 32 :: Y ++ Xm ++ 32 :: 41 :: rest) e' r' (Datatypes.S (Nat.max (Nat.max C1 C2 + 1) f0)) f);
    auto with rt; try lia.
  intros g Hg. destruct g as [|[|g]]; try lia.
  erewrite p_postfix_loop_call.
  - apply Hk. lia.
  - apply skip_blank_sp. reflexivity.
  - rewrite p_list_S. rewrite p_op0_lead by exact SY.
    rewrite HY by (try apply args_follow0; auto; lia).
    rewrite HX by (auto; lia). reflexivity.
  - apply ws_char_lit; auto.
Qed.

(* ---- unary ------------------------------------------------------------------------------ *)

Lemma un_of_post C D X e : Post C D X e -> Un (S (Nat.max C (1 + D))) X e.
Proof.
  intros [S H]. pose proof (starts_hdP_hd0 X S) as S0. split; [exact S0|].
  intros rest f Hf HC. destruct f as [|f]; [lia|].
  rewrite p_unary_S. destruct (starts_skip X rest S0) as [E _]. rewrite E. cbv zeta.
  fold utags.
  assert (M : match_tags utags (X ++ rest) = None).
  { destruct S as (c & X' & -> & Hc). cbn [app]. apply match_utags_operand.
    unfold hdP in Hc. apply andb_true_iff in Hc. apply Hc. }
  rewrite M.
  apply (H rest e rest 1%nat f); [eapply follow_sep; eauto| |lia|lia].
  intros g Hg. apply postfix_loop_stop; assumption.
Qed.

Lemma un_un u name C X e : In u unary_tags -> lookup1 parse1_table (bytes_of_string u) = Some name ->
  Un C X e -> Un (S C) (bytes_of_string u ++ 32 :: X) (op1 name e).
Proof.
  intros Hu Hn [S H].
  destruct (unary_facts u Hu) as (Hns & (c & t & E & Hc & _) & Hm & _).
  split; [rewrite E; exists c, (t ++ 32 :: X); auto|].
  intros rest f Hf HC. destruct f as [|f]; [lia|]. norm_app.
  rewrite p_unary_S.
  assert (SK : skip_blank (bytes_of_string u ++ 32 :: X ++ rest) = bytes_of_string u ++ 32 :: X ++ rest).
  { rewrite E. cbn [app]. apply skip_blank_nonblank. apply hd0_nonblank. exact Hc. }
  rewrite SK. cbv zeta. fold utags.
  rewrite match_tags_sep by (auto with rt; apply utags_nospace). rewrite Hm. cbn [app].
  rewrite p_unary_lead by exact S. rewrite H by (assumption || lia). rewrite Hn. reflexivity.
Qed.

(* ---- binary levels ---------------------------------------------------------------------- *)

Lemma next0_of_un C X e : Un C X e -> Next 0 (S C) X e.
Proof.
  intros [S H]. split; [exact S|]. intros rest f Hf HC. destruct f as [|f]; [lia|].
  rewrite p_rule_S, Hnext0, Hun. apply H; [assumption|lia].
Qed.

Lemma rule_of_next k C X e : (k < NL)%nat -> Next k C X e -> Rule k (S C) 1 X e.
Proof.
  intros Hk [S H]. split; [exact S|]. intros rest e' r' f0 f Hf Hc HC HD. destruct f as [|f]; [lia|].
  rewrite p_rule_S, Hfind by exact Hk. cbv zeta.
  destruct (starts_skip X rest S) as [E _]. rewrite E.
  rewrite H by (assumption || lia). apply Hc. lia.
Qed.

Lemma rule_done k C D X e rest f : (k < NL)%nat -> Rule k C D X e -> follow (S k) rest ->
  (C <= f)%nat -> (NL + 7 + D <= f)%nat -> p_rule' f (lv_name (lvl k)) (X ++ rest) = POk e rest.
Proof.
  intros Hk [S H] Hf HC HD.
  apply (H rest e rest (NL + 7)%nat f); [apply follow_S; exact Hf| |lia|lia].
  intros g Hg. apply level_loop_stop; assumption.
Qed.

Lemma next_of_rule k C D X e : (S k < NL)%nat -> Rule k C D X e -> Next (S k) (S (Nat.max C (NL + 7 + D))) X e.
Proof.
  intros Hk R. split; [apply R|]. intros rest f Hf HC.
  rewrite HnextS by exact Hk. apply (rule_done k C D); auto; lia.
Qed.

Lemma rule_bin k t name CL DL XL eL CR XR eR C' D' : (k < NL)%nat -> In t (lv_tags (lvl k)) ->
  lookup2 parse2_table (tagb t) = Some name ->
  Rule k CL DL XL eL -> Next k CR XR eR ->
  (CL <= C')%nat -> (1 + CR + DL <= C')%nat -> (DL + 1 <= D')%nat ->
  Rule k C' D' (XL ++ 32 :: tagb t ++ 32 :: XR) (op2 name eL eR).
Proof.
  intros Hk Ht Hn [SL HL] [SR HR] L1 L2 L3. split; [apply starts_app; exact SL|].
  intros rest e' r' f0 f Hf Hc HC HD. norm_app.
  pose proof (lvl_in k Hk) as Hl.
  destruct (tag_facts (lvl k) t Hl Ht) as (Hns & Hok & Hm & _).
  apply (HL (32 :: tagb t ++ 32 :: XR ++ rest) e' r' (S (Nat.max CR f0)) f); try lia.
  - apply follow_tok; auto with rt. apply toks_level; assumption.
  - intros g Hg. destruct g as [|g]; [lia|]. rewrite p_level_loop_S.
    destruct (tok_skip (tagb t) (32 :: XR ++ rest) Hok (sep_sp _)) as (c & t' & _ & S1 & _).
    rewrite S1. rewrite match_tags_sep by (auto with rt; apply level_nospace; exact Hl).
    rewrite Hm. cbn [app]. rewrite p_rule_lead by exact SR.
    rewrite HR by (assumption || lia). rewrite Hn. apply Hc. lia.
Qed.

(* ---- op_0 ------------------------------------------------------------------------------- *)

Lemma ws63_follow0 rest : follow0 rest -> ws_char 63 rest = None.
Proof.
  intros [->|(tk & r & -> & Hr & Ht)]; [reflexivity|].
  unfold ws_char. cbn in Ht.
  repeat (destruct Ht as [<-|Ht]; [cbn [app]; rewrite skip_blank_sp by reflexivity; reflexivity|]).
  destruct Ht.
Qed.

Lemma NL_pred : S (NL - 1) = NL.
Proof. lia. Qed.

Lemma top_done C D X e rest g : Rule (NL - 1) C D X e -> follow NL rest ->
  (C <= g)%nat -> (NL + 7 + D <= g)%nat -> p_rule' g (lv_name (lvl (NL - 1))) (X ++ rest) = POk e rest.
Proof.
  intros R Hf HC HD. apply (rule_done (NL - 1) C D); auto; try lia. rewrite NL_pred. exact Hf.
Qed.

Lemma op0_of_rule C D X e : Rule (NL - 1) C D X e -> Op0 (2 + Nat.max C (NL + 7 + D)) X e.
Proof.
  intros R. pose proof R as [S _]. split; [exact S|]. intros rest f Hf HC.
  destruct f as [|[|f]]; try lia.
  destruct (starts_skip X rest S) as [E1 _]. destruct (starts_noif X rest S) as [I1 I2].
  assert (FN : follow NL rest) by (apply follow0_follow; exact Hf).
  rewrite p_op0_S. cbv zeta. rewrite E1.
  rewrite p_if_S_noif by exact I1. rewrite E1. cbv zeta.
  rewrite (p_rule_name_eq cond_rule _ _ _ Hcond), (top_done C D X e) by (assumption || lia).
  rewrite ws63_follow0 by exact Hf.
  rewrite p_let_S_nolet by exact I2.
  rewrite (p_rule_name_eq top_rule _ _ _ Htop). apply (top_done C D X e); (assumption || lia).
Qed.

Lemma op0_cond Cc Dc XC ec Cy XY ey Cn XN en : Rule (NL - 1) Cc Dc XC ec -> Op0 Cy XY ey -> Op0 Cn XN en ->
  Op0 (2 + Nat.max (Nat.max Cc (NL + 7 + Dc)) (Nat.max Cy Cn))
      (XC ++ 32 :: 63 :: 32 :: XY ++ 32 :: 58 :: 32 :: XN) (op3 "If"%string ec ey en).
Proof.
  intros R [SY HY] [SN HN]. pose proof R as [S _]. split; [apply starts_app; exact S|].
  intros rest f Hf HC. destruct f as [|[|f]]; try lia. norm_app.
  pose proof (follow_sep 0 rest (follow0_follow 0 rest Hf)) as Hr.
  set (R1 := 32 :: 63 :: 32 :: XY ++ 32 :: 58 :: 32 :: XN ++ rest).
  destruct (starts_skip XC R1 S) as [E1 _]. destruct (starts_noif XC R1 S) as [I1 _].
  rewrite p_op0_S. cbv zeta. rewrite E1.
  rewrite p_if_S_noif by exact I1. rewrite E1. cbv zeta.
  rewrite (p_rule_name_eq cond_rule _ _ _ Hcond).
  rewrite (top_done Cc Dc XC ec) by (try assumption; try lia;
    apply (follow_tok NL [63]); auto with rt; apply toks_closer; cbn; auto).
  unfold R1. rewrite ws_char_lit by auto with rt.
  rewrite p_op0_lead by exact SY.
  rewrite HY by (try lia; apply (follow0_tok [58]); auto with rt; cbn; auto).
  rewrite ws_char_lit by auto with rt.
  rewrite p_op0_lead by exact SN. rewrite HN by (assumption || lia). reflexivity.
Qed.


(* ========================================================================================= *)
(* Trees, the minimal-parentheses printer, and the round trip                                 *)
(* ========================================================================================= *)

Definition t_paren (X : bytes) : bytes := 40 :: 32 :: X ++ [32; 41].
Definition t_bin (L op R : bytes) : bytes := L ++ 32 :: op ++ 32 :: R.
Definition t_un (op X : bytes) : bytes := op ++ 32 :: X.
Definition t_index (A I : bytes) : bytes := A ++ 32 :: 91 :: 32 :: I ++ [32; 93].
Definition t_access (A fld : bytes) : bytes := A ++ 32 :: 46 :: 32 :: fld.
Definition t_call0 (A : bytes) : bytes := A ++ [32; 40; 32; 41].
Definition t_call1 (A Y Xm : bytes) : bytes := A ++ 32 :: 40 :: 32 :: Y ++ Xm ++ [32; 41].
Definition t_argn (Y : bytes) : bytes := 32 :: 44 :: 32 :: Y.
Definition t_cond (C Y N : bytes) : bytes := C ++ 32 :: 63 :: 32 :: Y ++ 32 :: 58 :: 32 :: N.
Definition wrap (b : bool) (X : bytes) : bytes := if b then t_paren X else X.

Definition atom_ok (x : bytes) : Prop :=
  match x with b :: a => id_start b = true /\ forallb id_rest a = true | [] => False end.
Definition field_ok (x : bytes) : Prop :=
  match x with b :: a => (is_alpha b || (b =? 95)) = true /\ forallb id_rest a = true | [] => False end.
Definition int_ok (ds : bytes) : Prop :=
  ds <> [] /\ forallb is_dec ds = true /\ radix_val 10 ds 0 <= I64_MAX.

Local Open Scope nat_scope.

Inductive tree : Type :=
| TAtom (x : bytes)                       (* an identifier *)
| TInt (ds : bytes)                       (* a decimal numeral, given by its digits *)
| TBin (m j : nat) (l r : tree)           (* level index m (0 = tightest), tag index j in that level *)
| TUn (j : nat) (t : tree)                (* tag index j in unary_tags *)
| TIndex (a i : tree)
| TAccess (a : tree) (field : bytes)
| TCall (f : tree) (args : list tree)
| TCond (c y n : tree).

Section TreeInd.
  Variable P : tree -> Prop.
  Hypothesis HAtom : forall x, P (TAtom x).
  Hypothesis HInt : forall ds, P (TInt ds).
  Hypothesis HBin : forall m j l r, P l -> P r -> P (TBin m j l r).
  Hypothesis HUn : forall j t, P t -> P (TUn j t).
  Hypothesis HIndex : forall a i, P a -> P i -> P (TIndex a i).
  Hypothesis HAccess : forall a fld, P a -> P (TAccess a fld).
  Hypothesis HCall : forall f args, P f -> Forall P args -> P (TCall f args).
  Hypothesis HCond : forall c y n, P c -> P y -> P n -> P (TCond c y n).
  Fixpoint tree_ind' (t : tree) : P t :=
    match t with
    | TAtom x => HAtom x
    | TInt ds => HInt ds
    | TBin m j l r => HBin m j l r (tree_ind' l) (tree_ind' r)
    | TUn j t' => HUn j t' (tree_ind' t')
    | TIndex a i => HIndex a i (tree_ind' a) (tree_ind' i)
    | TAccess a fld => HAccess a fld (tree_ind' a)
    | TCall f args =>
        HCall f args (tree_ind' f)
          ((fix go (l : list tree) : Forall P l :=
              match l with
              | [] => Forall_nil P
              | a :: l' => Forall_cons a (tree_ind' a) (go l')
              end) args)
    | TCond c y n => HCond c y n (tree_ind' c) (tree_ind' y) (tree_ind' n)
    end.
End TreeInd.

Definition bin_tag (m j : nat) : string * bool := nth j (lv_tags (lvl m)) (""%string, false).
Definition bin_name (m j : nat) : string :=
  match lookup2 parse2_table (tagb (bin_tag m j)) with Some n => n | None => ""%string end.
Definition un_tag (j : nat) : string := nth j unary_tags ""%string.
Definition un_name (j : nat) : string :=
  match lookup1 parse1_table (bytes_of_string (un_tag j)) with Some n => n | None => ""%string end.

(* 0: postfix chains and atoms; 1: unary; m + 2: binary level m; NL + 2: conditional *)
Definition rank (t : tree) : nat :=
  match t with
  | TBin m _ _ _ => m + 2
  | TUn _ _ => 1
  | TCond _ _ _ => NL + 2
  | _ => 0
  end.

Fixpoint denote (t : tree) : expr :=
  match t with
  | TAtom x => EId x
  | TInt ds => EInt (Z.of_N (radix_val 10 ds 0))
  | TBin m j l r => op2 (bin_name m j) (denote l) (denote r)
  | TUn j t' => op1 (un_name j) (denote t')
  | TIndex a i => op2 "Index"%string (denote a) (denote i)
  | TAccess a fld => op2 "Access"%string (denote a) (EId fld)
  | TCall f args => ECall (denote f) (map denote args)
  | TCond c y n => op3 "If"%string (denote c) (denote y) (denote n)
  end.

Fixpoint print (t : tree) : bytes :=
  match t with
  | TAtom x => x
  | TInt ds => ds
  | TBin m j l r =>
      t_bin (wrap (m + 2 <? rank l) (print l)) (tagb (bin_tag m j)) (wrap (m + 2 <=? rank r) (print r))
  | TUn j t' => t_un (bytes_of_string (un_tag j)) (wrap (2 <=? rank t') (print t'))
  | TIndex a i => t_index (wrap (1 <=? rank a) (print a)) (print i)
  | TAccess a fld => t_access (wrap (1 <=? rank a) (print a)) fld
  | TCall f args =>
      match args with
      | [] => t_call0 (wrap (1 <=? rank f) (print f))
      | a :: l => t_call1 (wrap (1 <=? rank f) (print f)) (print a) (flat_map (fun x => t_argn (print x)) l)
      end
  | TCond c y n => t_cond (wrap (NL + 2 <=? rank c) (print c)) (print y) (print n)
  end.

Fixpoint wf (t : tree) : Prop :=
  match t with
  | TAtom x => atom_ok x
  | TInt ds => int_ok ds
  | TBin m j l r => m < NL /\ j < List.length (lv_tags (lvl m)) /\ wf l /\ wf r
  | TUn j t' => j < List.length unary_tags /\ wf t'
  | TIndex a i => wf a /\ wf i
  | TAccess a fld => wf a /\ field_ok fld
  | TCall f args => wf f /\ (fix wfl (l : list tree) : Prop := match l with [] => True | a :: l' => wf a /\ wfl l' end) args
  | TCond c y n => wf c /\ wf y /\ wf n
  end.

Lemma wf_call_forall f args : wf (TCall f args) -> wf f /\ Forall wf args.
Proof.
  cbn [wf]. intros [Hf H]. split; [exact Hf|]. induction args as [|a l IH]; constructor.
  - apply H. - apply IH. apply H.
Qed.

(* fuel weights *)
Definition GP : nat := 2 * NL + 6.           (* extra weight of a parenthesis / bracket / call group *)
Definition A0 : nat := NL + 10.
Definition wpar (b : bool) (w : nat) : nat := if b then w + GP else w.

Fixpoint wt (t : tree) : nat :=
  match t with
  | TAtom _ | TInt _ => 1
  | TBin m j l r => wpar (m + 2 <? rank l) (wt l) + wpar (m + 2 <=? rank r) (wt r) + 1
  | TUn j t' => wpar (2 <=? rank t') (wt t') + 1
  | TIndex a i => wpar (1 <=? rank a) (wt a) + wt i + GP
  | TAccess a _ => wpar (1 <=? rank a) (wt a) + 1
  | TCall f args => wpar (1 <=? rank f) (wt f) + GP + list_sum (map (fun a => wt a + 1) args)
  | TCond c y n => wpar (NL + 2 <=? rank c) (wt c) + wt y + wt n + 2
  end.

Lemma wt_pos t : 1 <= wt t.
Proof. destruct t; cbn [wt]; unfold GP; lia. Qed.

(* ---- fuel bookkeeping at the semantic level --------------------------------------------- *)

Lemma sem_post w X e : Post (w + A0) w X e -> Un (w + A0 + 2) X e.
Proof. intros H. apply un_of_post in H. eapply Un_weaken; [|exact H]. lia. Qed.

Lemma sem_un_next0 w X e : Un (w + A0 + 2) X e -> Next 0 (w + A0 + 3 + 2 * 0) X e.
Proof. intros H. apply next0_of_un in H. eapply Next_weaken; [|exact H]. lia. Qed.

Lemma sem_next_rule w X e k : 1 <= w -> k < NL -> Next k (w + A0 + 3 + 2 * k) X e -> Rule k (w + A0 + 4 + 2 * k) w X e.
Proof. intros Hw Hk H. apply rule_of_next in H; [|exact Hk]. eapply Rule_weaken; [| |exact H]; lia. Qed.

Lemma sem_rule_next w X e k : S k < NL -> Rule k (w + A0 + 4 + 2 * k) w X e -> Next (S k) (w + A0 + 3 + 2 * S k) X e.
Proof. intros Hk H. apply next_of_rule in H; [|exact Hk]. eapply Next_weaken; [|exact H]. unfold A0. lia. Qed.

Lemma sem_un_rule w X e : 1 <= w -> Un (w + A0 + 2) X e -> forall k, k < NL ->
  Rule k (w + A0 + 4 + 2 * k) w X e.
Proof.
  intros Hw H. induction k as [|k IH]; intros Hk.
  - apply sem_next_rule; auto. apply sem_un_next0. exact H.
  - apply sem_next_rule; auto. apply sem_rule_next; auto. apply IH. lia.
Qed.

Lemma sem_un_next w X e m : 1 <= w -> m < NL -> Un (w + A0 + 2) X e -> Next m (w + A0 + 3 + 2 * m) X e.
Proof.
  intros Hw Hm H. destruct m as [|m]; [apply sem_un_next0; exact H|].
  apply sem_rule_next; auto. apply sem_un_rule; auto. lia.
Qed.

Lemma sem_rule_lift w X e j : 1 <= w -> Rule j (w + A0 + 4 + 2 * j) w X e ->
  forall k, j <= k -> k < NL -> Rule k (w + A0 + 4 + 2 * k) w X e.
Proof.
  intros Hw H k Hjk. induction Hjk as [|k Hjk IH]; intros Hk; [exact H|].
  apply sem_next_rule; auto. apply sem_rule_next; auto. apply IH. lia.
Qed.

Lemma sem_rule_op0 w X e : Rule (NL - 1) (w + A0 + 4 + 2 * (NL - 1)) w X e -> Op0 (w + A0 + 2 * NL + 4) X e.
Proof. intros H. apply op0_of_rule in H. eapply Op0_weaken; [|exact H]. unfold A0. lia. Qed.

Lemma sem_paren w X e : Op0 (w + A0 + 2 * NL + 4) X e -> Post (w + GP + A0) (w + GP) (t_paren X) e.
Proof.
  intros H. apply val_paren in H. apply post_of_val in H.
  eapply Post_weaken; [| |exact H]; unfold GP; lia.
Qed.

(* ---- the invariant proved by induction on trees ------------------------------------------ *)

Definition Good (t : tree) : Prop :=
  (rank t = 0 -> Post (wt t + A0) (wt t) (print t) (denote t)) /\
  (rank t <= 1 -> Un (wt t + A0 + 2) (print t) (denote t)) /\
  (forall k, k < NL -> rank t <= k + 2 -> Rule k (wt t + A0 + 4 + 2 * k) (wt t) (print t) (denote t)) /\
  Op0 (wt t + A0 + 2 * NL + 4) (print t) (denote t).

Lemma good_of_post t : Post (wt t + A0) (wt t) (print t) (denote t) -> Good t.
Proof.
  intros H. pose proof (wt_pos t) as Hw. pose proof (sem_post _ _ _ H) as HU.
  pose proof (sem_un_rule _ _ _ Hw HU) as HR.
  split; [|split; [|split]]; auto. apply sem_rule_op0. apply HR. lia.
Qed.

Lemma good_of_un t : 1 <= rank t -> Un (wt t + A0 + 2) (print t) (denote t) -> Good t.
Proof.
  intros Hr HU. pose proof (wt_pos t) as Hw.
  pose proof (sem_un_rule _ _ _ Hw HU) as HR.
  split; [|split; [|split]]; auto; try lia. apply sem_rule_op0. apply HR. lia.
Qed.

Lemma good_of_rule t m : rank t = m + 2 -> m < NL ->
  Rule m (wt t + A0 + 4 + 2 * m) (wt t) (print t) (denote t) -> Good t.
Proof.
  intros Hr Hm HR. pose proof (wt_pos t) as Hw.
  pose proof (sem_rule_lift _ _ _ _ Hw HR) as HL.
  split; [|split; [|split]]; try lia.
  - intros k Hk Hrk. apply HL; lia.
  - apply sem_rule_op0. apply HL; lia.
Qed.

(* operands in context *)
Lemma good_paren t : Good t -> Post (wt t + GP + A0) (wt t + GP) (t_paren (print t)) (denote t).
Proof. intros (_ & _ & _ & H). apply sem_paren. exact H. Qed.

Lemma opd_post t : Good t ->
  Post (wpar (1 <=? rank t) (wt t) + A0) (wpar (1 <=? rank t) (wt t)) (wrap (1 <=? rank t) (print t)) (denote t).
Proof.
  intros G. destruct (Nat.leb_spec 1 (rank t)); cbn [wpar wrap].
  - apply good_paren. exact G.
  - apply G. lia.
Qed.

Lemma opd_un t : Good t ->
  Un (wpar (2 <=? rank t) (wt t) + A0 + 2) (wrap (2 <=? rank t) (print t)) (denote t).
Proof.
  intros G. destruct (Nat.leb_spec 2 (rank t)); cbn [wpar wrap].
  - apply sem_post. apply good_paren. exact G.
  - apply G. lia.
Qed.

Lemma opd_left t m : Good t -> m < NL ->
  Rule m (wpar (m + 2 <? rank t) (wt t) + A0 + 4 + 2 * m) (wpar (m + 2 <? rank t) (wt t))
       (wrap (m + 2 <? rank t) (print t)) (denote t).
Proof.
  intros G Hm. pose proof (wt_pos t) as Hw. destruct (Nat.ltb_spec (m + 2) (rank t)); cbn [wpar wrap].
  - apply sem_un_rule; [lia| |exact Hm]. apply sem_post. apply good_paren. exact G.
  - apply G; [exact Hm|lia].
Qed.

Lemma opd_right t m : Good t -> m < NL ->
  Next m (wpar (m + 2 <=? rank t) (wt t) + A0 + 3 + 2 * m) (wrap (m + 2 <=? rank t) (print t)) (denote t).
Proof.
  intros G Hm. pose proof (wt_pos t) as Hw. destruct (Nat.leb_spec (m + 2) (rank t)); cbn [wpar wrap].
  - apply sem_un_next; [lia|exact Hm|]. apply sem_post. apply good_paren. exact G.
  - destruct m as [|m].
    + apply sem_un_next0. apply G. lia.
    + apply sem_rule_next; [exact Hm|]. apply G; lia.
Qed.

Lemma opd_cond t : Good t ->
  Rule (NL - 1) (wpar (NL + 2 <=? rank t) (wt t) + A0 + 4 + 2 * (NL - 1)) (wpar (NL + 2 <=? rank t) (wt t))
       (wrap (NL + 2 <=? rank t) (print t)) (denote t).
Proof.
  intros G. pose proof (wt_pos t) as Hw. destruct (Nat.leb_spec (NL + 2) (rank t)); cbn [wpar wrap].
  - apply sem_un_rule; [lia| |lia]. apply sem_post. apply good_paren. exact G.
  - apply G; lia.
Qed.


Lemma Args_weaken C C' X es : C <= C' -> Args C X es -> Args C' X es.
Proof. intros L [S H]. split; [exact S|]. intros. apply H; [assumption|lia]. Qed.

Lemma args_good l : Forall Good l ->
  Args (list_sum (map (fun a => wt a + 1) l) + A0 + 2 * NL + 4)
       (flat_map (fun x => t_argn (print x)) l) (map denote l).
Proof.
  induction 1 as [|a l Ha Hl IH].
  - eapply Args_weaken; [|apply args_nil]. cbn. lia.
  - destruct Ha as (_ & _ & _ & Ha). cbn [map flat_map list_sum fold_right].
    eapply Args_weaken; [|apply (args_cons _ _ _ _ _ _ Ha IH)]. unfold list_sum. cbn [map fold_right]. lia.
Qed.

Lemma good_atom x : atom_ok x -> Good (TAtom x).
Proof.
  intros H. destruct x as [|b a]; [destruct H|]. destruct H as [Hb Ha].
  apply good_of_post. cbn [wt print denote].
  eapply Post_weaken; [| |apply post_of_val; apply val_ident; eassumption]; unfold A0; lia.
Qed.

Lemma good_int ds : int_ok ds -> Good (TInt ds).
Proof.
  intros (Hne & Hd & Hv). destruct ds as [|d ds]; [congruence|].
  apply good_of_post. cbn [wt print denote].
  eapply Post_weaken; [| |apply post_of_val; apply val_int; eassumption]; unfold A0; lia.
Qed.

Lemma good_bin m j l r : m < NL -> j < List.length (lv_tags (lvl m)) -> Good l -> Good r -> Good (TBin m j l r).
Proof.
  intros Hm Hj Gl Gr.
  assert (Ht : In (bin_tag m j) (lv_tags (lvl m))) by (apply nth_In; exact Hj).
  destruct (tag_facts (lvl m) (bin_tag m j) (lvl_in m Hm) Ht) as (_ & _ & _ & name & Hn).
  assert (En : bin_name m j = name) by (unfold bin_name; rewrite Hn; reflexivity).
  apply (good_of_rule _ m); [reflexivity|exact Hm|].
  cbn [wt print denote]. rewrite En. unfold t_bin.
  eapply rule_bin; [exact Hm|exact Ht|exact Hn|apply opd_left; assumption|apply opd_right; assumption|lia|lia|lia].
Qed.

Lemma good_un j t : j < List.length unary_tags -> Good t -> Good (TUn j t).
Proof.
  intros Hj G.
  assert (Hu : In (un_tag j) unary_tags) by (apply nth_In; exact Hj).
  destruct (unary_facts (un_tag j) Hu) as (_ & _ & _ & name & Hn).
  assert (En : un_name j = name) by (unfold un_name; rewrite Hn; reflexivity).
  apply good_of_un; [cbn; lia|].
  cbn [wt print denote]. rewrite En. unfold t_un.
  eapply Un_weaken; [|apply (un_un _ _ _ _ _ Hu Hn (opd_un t G))]. lia.
Qed.

Lemma good_index a i : Good a -> Good i -> Good (TIndex a i).
Proof.
  intros Ga Gi. apply good_of_post. cbn [wt print denote]. unfold t_index.
  destruct Gi as (_ & _ & _ & Hi).
  eapply post_index; [apply opd_post; exact Ga|exact Hi| | |]; unfold GP; lia.
Qed.

Lemma good_access a fld : Good a -> field_ok fld -> Good (TAccess a fld).
Proof.
  intros Ga Hf. destruct fld as [|b f]; [destruct Hf|]. destruct Hf as [Hb Hf].
  apply good_of_post. cbn [wt print denote]. unfold t_access.
  eapply Post_weaken; [| |eapply post_access; [apply opd_post; exact Ga|exact Hb|exact Hf|apply le_n]]; lia.
Qed.

Lemma good_call f args : Good f -> Forall Good args -> Good (TCall f args).
Proof.
  intros Gf Ga. apply good_of_post. cbn [wt print denote].
  destruct Ga as [|a l Ha Hl].
  - unfold t_call0. cbn [map list_sum fold_right].
    eapply post_call_nil; [apply opd_post; exact Gf| | |]; unfold GP, A0, list_sum; cbn [map fold_right]; lia.
  - unfold t_call1. cbn [map list_sum fold_right]. destruct Ha as (_ & _ & _ & Ha).
    eapply post_call_cons; [apply opd_post; exact Gf|exact Ha|apply args_good; exact Hl| | |]; unfold GP, list_sum; cbn [map fold_right]; lia.
Qed.

Lemma good_cond c y n : Good c -> Good y -> Good n -> Good (TCond c y n).
Proof.
  intros Gc (_ & _ & _ & Hy) (_ & _ & _ & Hn).
  split; [|split; [|split]]; try (cbn [rank]; intros; lia).
  cbn [wt print denote]. unfold t_cond.
  eapply Op0_weaken; [|apply (op0_cond _ _ _ _ _ _ _ _ _ _ (opd_cond c Gc) Hy Hn)].
  unfold A0. lia.
Qed.

Theorem all_good : forall t, wf t -> Good t.
Proof.
  induction t using tree_ind'; intros W.
  - apply good_atom. exact W.
  - apply good_int. exact W.
  - destruct W as (Hm & Hj & Wl & Wr). apply good_bin; auto.
  - destruct W as (Hj & Wt). apply good_un; auto.
  - destruct W as (Wa & Wi). apply good_index; auto.
  - destruct W as (Wa & Wf). apply good_access; auto.
  - apply wf_call_forall in W. destruct W as (Wf & Wa). apply good_call; auto.
    clear - H Wa. induction H as [|a l Ha Hl IH]; constructor.
    + apply Ha. inversion Wa; assumption.
    + apply IH. inversion Wa; assumption.
  - destruct W as (Wc & Wy & Wn). apply good_cond; auto.
Qed.


(* ---- the fuel supplied by `parse` is enough ---------------------------------------------- *)

Hypothesis HNL : NL <= 38.

Lemma wpar_len b w X : w <= 64 * List.length X -> wpar b w <= 64 * List.length (wrap b X).
Proof.
  intros H. destruct b; cbn [wpar wrap]; [|exact H]. unfold t_paren, GP.
  cbn [List.length]. rewrite app_length. cbn [List.length]. lia.
Qed.

Lemma wt_len : forall t, wf t -> wt t <= 64 * List.length (print t).
Proof.
  induction t using tree_ind'; intros W; cbn [wt print].
  - destruct x; [destruct W|]. cbn [List.length]. lia.
  - destruct W as (Hne & _). destruct ds; [congruence|]. cbn [List.length]. lia.
  - destruct W as (Hm & Hj & Wl & Wr).
    pose proof (wpar_len (m + 2 <? rank t1) _ _ (IHt1 Wl)). pose proof (wpar_len (m + 2 <=? rank t2) _ _ (IHt2 Wr)).
    unfold t_bin. rewrite !app_length. cbn [List.length]. rewrite !app_length. cbn [List.length]. lia.
  - destruct W as (Hj & Wt). pose proof (wpar_len (2 <=? rank t) _ _ (IHt Wt)).
    unfold t_un. rewrite !app_length. cbn [List.length]. lia.
  - destruct W as (Wa & Wi). pose proof (wpar_len (1 <=? rank t1) _ _ (IHt1 Wa)). pose proof (IHt2 Wi).
    unfold t_index, GP. rewrite !app_length. cbn [List.length]. rewrite !app_length. cbn [List.length]. lia.
  - destruct W as (Wa & Wf). pose proof (wpar_len (1 <=? rank t) _ _ (IHt Wa)).
    unfold t_access. rewrite !app_length. cbn [List.length]. lia.
  - apply wf_call_forall in W. destruct W as (Wf & Wa).
    pose proof (wpar_len (1 <=? rank t) _ _ (IHt Wf)) as Hf.
    assert (L : forall l, Forall (fun t => wf t -> wt t <= 64 * List.length (print t)) l -> Forall wf l ->
                list_sum (map (fun a => wt a + 1) l) <= 64 * List.length (flat_map (fun x => t_argn (print x)) l)).
    { clear. induction 1 as [|a l Ha Hl IH]; intros Wl; [cbn; lia|].
      inversion Wl; subst. unfold list_sum in *. cbn [map fold_right flat_map]. unfold t_argn at 1.
      rewrite app_length. cbn [List.length]. specialize (Ha H1). specialize (IH H2). lia. }
    destruct H as [|a l Ha Hl].
    + unfold t_call0, GP, list_sum. rewrite app_length. cbn [List.length map fold_right]. lia.
    + inversion Wa; subst. specialize (L l Hl H2). specialize (Ha H1).
      unfold t_call1, GP, list_sum in *. cbn [map fold_right].
      rewrite !app_length. cbn [List.length]. rewrite !app_length. cbn [List.length]. lia.
  - destruct W as (Wc & Wy & Wn). pose proof (wpar_len (NL + 2 <=? rank t1) _ _ (IHt1 Wc)).
    pose proof (IHt2 Wy). pose proof (IHt3 Wn).
    unfold t_cond. rewrite !app_length. cbn [List.length]. rewrite !app_length. cbn [List.length]. lia.
Qed.

Definition fuel_bound (t : tree) : nat := wt t + 3 * NL + 14.

Theorem roundtrip_fuel_generic t f : wf t -> fuel_bound t <= f ->
  parse_with_fuel levels parse2_table parse1_table unary_tags top_rule cond_rule f (print t) = POk (denote t) [].
Proof.
  intros W Hf. destruct (all_good t W) as (_ & _ & _ & [_ H]).
  assert (E : p_op0' f (print t ++ []) = POk (denote t) []).
  { apply H; [left; reflexivity|]. unfold fuel_bound, A0 in *. lia. }
  rewrite app_nil_r in E. unfold parse_with_fuel. rewrite E. reflexivity.
Qed.

Theorem roundtrip_generic t : wf t ->
  parse levels parse2_table parse1_table unary_tags top_rule cond_rule (print t) = POk (denote t) [].
Proof.
  intros W. unfold parse. apply roundtrip_fuel_generic; [exact W|].
  pose proof (wt_len t W). unfold fuel_bound. lia.
Qed.

End Comb.

(* ========================================================================================= *)
(* Instance: the ladder extracted from milu/src/parser.rs                                     *)
(* ========================================================================================= *)

From RP.Gen Require Import Gen_ladder.

Definition m_wf : tree -> Prop := wf levels unary_tags.
Definition m_print : tree -> bytes := print levels unary_tags.
Definition m_denote : tree -> expr := denote levels parse2_table parse1_table unary_tags.
Definition m_fuel_bound : tree -> nat := fuel_bound levels.

Lemma ladder_find : forall k, (k < NL levels)%nat ->
  find_level levels (lv_name (lvl levels k)) = Some (lvl levels k).
Proof.
  intros k Hk. unfold NL in Hk. cbn in Hk.
  do 11 (destruct k as [|k]; [reflexivity|]). lia.
Qed.

Lemma ladder_next : forall k, (S k < NL levels)%nat -> lv_next (lvl levels (S k)) = lv_name (lvl levels k).
Proof.
  intros k Hk. unfold NL in Hk. cbn in Hk.
  do 10 (destruct k as [|k]; [reflexivity|]). lia.
Qed.

Lemma ladder_tags_ok : tags_ok levels parse2_table = true.
Proof. vm_compute. reflexivity. Qed.
Lemma ladder_stop_ok : stop_ok levels = true.
Proof. vm_compute. reflexivity. Qed.
Lemma ladder_unary_ok : unary_ok parse1_table unary_tags = true.
Proof. vm_compute. reflexivity. Qed.

Lemma ladder_pos : (0 < NL levels)%nat.
Proof. unfold NL. cbn. lia. Qed.
Lemma ladder_small : (NL levels <= 38)%nat.
Proof. unfold NL. cbn. lia. Qed.

(* With at least m_fuel_bound t = wt t + 47 units of fuel (wt is linear in the size of the tree). *)
Theorem roundtrip_fuel : forall t f, m_wf t -> (m_fuel_bound t <= f)%nat ->
  parse_with_fuel levels parse2_table parse1_table unary_tags MiluDoc.top_rule ternary_cond_rule f (m_print t)
  = POk (m_denote t) [].
Proof.
  exact (roundtrip_fuel_generic levels parse2_table parse1_table unary_tags
           MiluDoc.top_rule ternary_cond_rule "op_7"%string
           ladder_find eq_refl ladder_next eq_refl ladder_pos eq_refl eq_refl
           ladder_tags_ok ladder_stop_ok ladder_unary_ok ladder_small).
Qed.

(* MAIN THEOREM: with the fuel that `parse` itself supplies (64 * (length src + 2)). *)
Theorem roundtrip : forall t, m_wf t ->
  parse levels parse2_table parse1_table unary_tags MiluDoc.top_rule ternary_cond_rule (m_print t)
  = POk (m_denote t) [].
Proof.
  exact (roundtrip_generic levels parse2_table parse1_table unary_tags
           MiluDoc.top_rule ternary_cond_rule "op_7"%string
           ladder_find eq_refl ladder_next eq_refl ladder_pos eq_refl eq_refl
           ladder_tags_ok ladder_stop_ok ladder_unary_ok ladder_small).
Qed.

(* canonical decimal numerals *)
Definition TNum (n : N) : tree := TInt (dec_of_N n).

Lemma wf_TNum n : n <= I64_MAX -> m_wf (TNum n).
Proof.
  intros H. destruct (dec_of_N_ok n) as (H1 & H2 & H3).
  unfold m_wf, TNum. cbn [wf]. unfold int_ok. rewrite H3. auto.
Qed.

Lemma denote_TNum n : m_denote (TNum n) = EInt (Z.of_N n).
Proof.
  destruct (dec_of_N_ok n) as (_ & _ & H3). unfold m_denote, TNum. cbn [denote]. rewrite H3. reflexivity.
Qed.

(* the side conditions are satisfiable: - a [ a + 12 ] . xy ( a , a ? b : c , b ( ) ) and w *)
Example wf_example :
  let a := TAtom [97] in let b := TAtom [98] in let c := TAtom [99] in
  m_wf (TBin 8 1 (TCall (TAccess (TIndex (TUn 2 a) (TBin 1 0 a (TNum 12))) [120; 121])
                        [a; TCond a b c; TCall b []]) (TAtom [119])).
Proof.
  cbv zeta. unfold m_wf. cbn -[N.le I64_MAX]. repeat split; try reflexivity; try lia; try discriminate.
Qed.

Print Assumptions skip_blank_closed.
Print Assumptions roundtrip_fuel.
Print Assumptions roundtrip.
