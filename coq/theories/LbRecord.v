(* Which connector a connection is recorded under (property C17, last clause): process_request records the connector the
   rule names; LoadBalanceConnector::connect records the member it selected and then hands the request on to it
   (src/main.rs, src/connectors/loadbalance.rs).  With nested balancers several records are written; the one that stays is
   the last.  `before = true`: set_connector(next) precedes conn.connect(..) (what the source does; read by the translator,
   Gen_lb.lb_records_member_before_delegating).  `before = false`: the record is written after the member's connect
   returned. *)
From RP Require Import Base Config.
Local Open Scope nat_scope.

Fixpoint lb_writes (before : bool) (fuel : nat) (t : ctable) (n : N) (choices : list nat) : list N :=
  match fuel with
  | O => []
  | S f =>
      match alookup n t with
      | Some (KLb ms) =>
          let c := match choices with c :: _ => c | [] => 0 end in
          match nth_error ms (c mod length ms) with
          | Some m => if before then m :: lb_writes before f t m (tl choices)
                      else lb_writes before f t m (tl choices) ++ [m]
          | None => []
          end
      | _ => []
      end
  end.

(* process_request wrote n first *)
Definition recorded (before : bool) (fuel : nat) (t : ctable) (n : N) (choices : list nat) : N :=
  last (lb_writes before fuel t n choices) n.

Lemma last_indep {A} : forall (l : list A) b d d', last (b :: l) d = last (b :: l) d'.
Proof. induction l as [|c l IH]; intros b d d'; [reflexivity|]. cbn [last] in *. apply (IH c d d'). Qed.

Lemma last_cons {A} (a : A) l d : last (a :: l) d = last l a.
Proof. destruct l as [|b l]; [reflexivity|]. change (last (a :: b :: l) d) with (last (b :: l) d). apply last_indep. Qed.

(* whatever the selections and however deep the balancers are nested: the record that stays names the connector that
   opened the connection *)
Theorem recorded_is_used : forall fuel t n choices leaf,
  resolve fuel t n choices = Leaf leaf -> recorded true fuel t n choices = leaf.
Proof.
  unfold recorded. induction fuel as [|f IH]; intros t n choices leaf H; [discriminate|].
  cbn [resolve lb_writes] in *. destruct (alookup n t) as [[|ms]|]; try discriminate.
  - injection H as <-. reflexivity.
  - destruct (nth_error ms _) as [m|]; [|discriminate].
    rewrite last_cons. apply IH. exact H.
Qed.

(* recording after the member's connect: with a balancer inside a balancer the outer record overwrites the inner one *)
Theorem record_after_connect_refuted :
  let t := [(0, KPlain); (1, KLb [2]); (2, KLb [0])]%N in
  table_ok t = true /\ resolve 4 t 1%N [] = Leaf 0%N /\ recorded false 4 t 1%N [] = 2%N /\ recorded true 4 t 1%N [] = 0%N.
Proof. repeat split; reflexivity. Qed.
