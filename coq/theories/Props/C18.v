(* Property C18 — an accepted configuration never makes the proxy recurse without bound.
   Model: Config.v (connector table, LoadBalanceConnector::verify as fixed by c9dc847, the selection chain of
   LoadBalanceConnector::connect).  The part of the property about malformed documents (an error, never a
   panic) is decided by the hostile-document runs of checks/c18.py against the real loader; serde is not modelled. *)
From RP Require Import Base Config ConfigProofs.
Local Open Scope nat_scope.

(* for every accepted connector table, every existing connector and every sequence of selections: the request
   reaches a connector that is not a load balancer within |table| + 1 steps *)
Theorem C18_accepted_tables_terminate : forall t n choices,
  table_ok t = true -> is_some (alookup n t) = true ->
  exists leaf, resolve (S (length t)) t n choices = Leaf leaf /\ alookup leaf t = Some KPlain.
Proof. exact accepted_tables_terminate. Qed.
Print Assumptions C18_accepted_tables_terminate.

Theorem C18_self_member_rejected : forall t n ms,
  alookup n t = Some (KLb ms) -> In n ms -> In (n, KLb ms) t -> table_ok t = false.
Proof. exact self_member_rejected. Qed.
Print Assumptions C18_self_member_rejected.

(* what fix c9dc847 repaired: with name uniqueness and member existence alone no stack is deep enough *)
Theorem C18_without_cycle_check_refuted : forall fuel,
  exists t n choices,
    names_unique t = true /\ is_some (alookup n t) = true /\ resolve fuel t n choices = OutOfFuel.
Proof. exact cycle_can_exhaust_any_fuel. Qed.
Print Assumptions C18_without_cycle_check_refuted.

Example C18_example :
  table_ok [(0, KPlain); (1, KLb [0; 2]); (2, KLb [0])]%N = true /\
  table_ok [(0, KPlain); (1, KLb [0; 2]); (2, KLb [1])]%N = false /\
  resolve 4 [(0, KPlain); (1, KLb [0; 2]); (2, KLb [0])]%N 1%N [1; 0] = Leaf 0%N.
Proof. repeat split; reflexivity. Qed.
