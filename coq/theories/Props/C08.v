From RP Require Import Base MiluEval.
