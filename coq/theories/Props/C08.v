(* Property C08 — rule-language type soundness.
   Model: MiluEval.v (checker type_of and evaluator value_of as the milu crate implements them
   after the fix: commits, in the redproxy script environment).  This file holds the property
   theorems that are proved; the full induction (soundness for the let-free fragment) is added
   from MiluSound.v when present.  The two recorded holes are proved as refutations with
   concrete witnesses, replayed on the implementation by checks/c08.py. *)
From RP Require Import Base Target MiluSyntax MiluDoc MiluEval C08Proofs.
From Coq Require Import ZArith String.

Theorem C08_int_op_total : forall name a b, is_int_op name = true ->
  (exists z, int_op name a b = Ok (VInt z)) \/ int_op name a b = Err E_ARITH.
Proof. exact int_op_total. Qed.
Print Assumptions C08_int_op_total.

Theorem C08_cmp_values_typed : forall name a b v, cmp_values name a b = Ok v -> exists r, v = VBool r.
Proof. exact cmp_values_typed. Qed.
Print Assumptions C08_cmp_values_typed.

Theorem C08_accessor_types_agree : forall a name t,
  addr_field_type name = Ok t ->
  match addr_field a name with
  | Ok (VStr _) => t = TyStr
  | Ok (VInt _) => t = TyInt
  | _ => False
  end.
Proof. exact addr_accessor_types_agree. Qed.
Print Assumptions C08_accessor_types_agree.

(* KnownClass_C08, witnessed: the full statement is FALSE of the faithful model (and of the code) *)
Theorem C08_soundness_refuted_any_wildcard :
  type_of (fun _ _ => Some false) (fun _ _ => false) (mk_req [] [] [] (mk_addr 1 [] 0 [] []) (mk_addr 1 [] 0 [] [])) 50 [] hole_any = Ok TyBool /\
  real_value_of (fun _ _ => Some false) (fun _ _ => false) (mk_req [] [] [] (mk_addr 1 [] 0 [] []) (mk_addr 1 [] 0 [] [])) 50 [] hole_any = Err E_TYPE.
Proof. exact soundness_refuted_any. Qed.
Print Assumptions C08_soundness_refuted_any_wildcard.

Theorem C08_soundness_refuted_aggregate_leaves_scope :
  type_of (fun _ _ => Some false) (fun _ _ => false) (mk_req [] [] [] (mk_addr 1 [] 0 [] []) (mk_addr 1 [] 0 [] [])) 50 [] hole_scope = Ok TyInt /\
  real_value_of (fun _ _ => Some false) (fun _ _ => false) (mk_req [] [] [] (mk_addr 1 [] 0 [] []) (mk_addr 1 [] 0 [] [])) 50 [] hole_scope = Err E_TYPE.
Proof. exact soundness_refuted_scope. Qed.
Print Assumptions C08_soundness_refuted_aggregate_leaves_scope.

Theorem C08_soundness_refuted_aggregate_shadowed :
  type_of (fun _ _ => Some false) (fun _ _ => false) (mk_req [] [] [] (mk_addr 1 [] 0 [] []) (mk_addr 1 [] 0 [] [])) 50 [] hole_shadow = Ok TyInt /\
  real_value_of (fun _ _ => Some false) (fun _ _ => false) (mk_req [] [] [] (mk_addr 1 [] 0 [] []) (mk_addr 1 [] 0 [] [])) 50 [] hole_shadow = Err E_TYPE.
Proof. exact soundness_refuted_shadow. Qed.
Print Assumptions C08_soundness_refuted_aggregate_shadowed.
