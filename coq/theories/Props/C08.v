(* Property C08 — rule-language type soundness.
   Model: MiluEval.v (checker type_of and evaluator value_of as the milu crate implements them
   after the fix: commits, in the redproxy script environment).  This file holds the property
   theorems; the soundness induction for the let-free fragment is in MiluSound.v.  The two
   recorded holes are proved as refutations with concrete witnesses, replayed on the
   implementation by checks/c08.py.  Not proved: soundness for programs with `let` (outside the
   two known classes it is covered by the differential check only). *)
From RP Require Import Base Target MiluSyntax MiluDoc MiluEval C08Proofs MiluSound MiluWf MiluSoundLet.
From Coq Require Import ZArith String.

Theorem C08_int_op_total : forall name a b, is_int_op name = true ->
  (exists z, int_op name a b = Ok (VInt z)) \/ int_op name a b = Err E_ARITH.
Proof. exact int_op_total. Qed.
Print Assumptions C08_int_op_total.

Theorem C08_cmp_values_typed : forall name a b v, cmp_values name a b = Ok v -> exists r, v = VBool r.
Proof. exact cmp_values_typed. Qed.
Print Assumptions C08_cmp_values_typed.

Theorem C08_accessor_types_agree : forall a name t,
  addr_field_type name = Ok t ->
  match addr_field a name with
  | Ok (VStr _) => t = TyStr
  | Ok (VInt _) => t = TyInt
  | _ => False
  end.
Proof. exact addr_accessor_types_agree. Qed.
Print Assumptions C08_accessor_types_agree.

(* KnownClass_C08, witnessed: the full statement is FALSE of the faithful model (and of the code) *)
Theorem C08_soundness_refuted_any_wildcard :
  type_of (fun _ _ => Some false) (fun _ _ => false) (mk_req [] [] [] (mk_addr 1 [] 0 [] []) (mk_addr 1 [] 0 [] [])) 50 [] hole_any = Ok TyBool /\
  real_value_of (fun _ _ => Some false) (fun _ _ => false) (mk_req [] [] [] (mk_addr 1 [] 0 [] []) (mk_addr 1 [] 0 [] [])) 50 [] hole_any = Err E_TYPE.
Proof. exact soundness_refuted_any. Qed.
Print Assumptions C08_soundness_refuted_any_wildcard.

Theorem C08_soundness_refuted_aggregate_leaves_scope :
  type_of (fun _ _ => Some false) (fun _ _ => false) (mk_req [] [] [] (mk_addr 1 [] 0 [] []) (mk_addr 1 [] 0 [] [])) 50 [] hole_scope = Ok TyInt /\
  real_value_of (fun _ _ => Some false) (fun _ _ => false) (mk_req [] [] [] (mk_addr 1 [] 0 [] []) (mk_addr 1 [] 0 [] [])) 50 [] hole_scope = Err E_TYPE.
Proof. exact soundness_refuted_scope. Qed.
Print Assumptions C08_soundness_refuted_aggregate_leaves_scope.

Theorem C08_soundness_refuted_aggregate_shadowed :
  type_of (fun _ _ => Some false) (fun _ _ => false) (mk_req [] [] [] (mk_addr 1 [] 0 [] []) (mk_addr 1 [] 0 [] [])) 50 [] hole_shadow = Ok TyInt /\
  real_value_of (fun _ _ => Some false) (fun _ _ => false) (mk_req [] [] [] (mk_addr 1 [] 0 [] []) (mk_addr 1 [] 0 [] [])) 50 [] hole_shadow = Err E_TYPE.
Proof. exact soundness_refuted_shadow. Qed.
Print Assumptions C08_soundness_refuted_aggregate_shadowed.

(* Type soundness, let-free fragment (wf_lf: what the parser builds, no `let`, no `[]`):
   for EVERY such expression, every request, every oracle behaviour and every fuel, if the
   checker accepts with type T then evaluation is a value of type T or an inherently dynamic
   error (arithmetic, index, regex, non-numeric string; or out of fuel) - never a panic, never a
   type error. *)
Theorem C08_type_soundness_let_free :
  forall regex_match cidr_match_text rq fuel1 fuel2 e T,
    wf_lf e ->
    type_of regex_match cidr_match_text rq fuel1 [] e = Ok T ->
    match value_of regex_match cidr_match_text rq fuel2 [] e with
    | Ok v => vtyped regex_match cidr_match_text rq v T
    | Err c => c <> E_TYPE
    | Panic _ => False
    end.
Proof. exact soundness_let_free. Qed.
Print Assumptions C08_type_soundness_let_free.

(* ... at the entry points used for rule filters, load-balancer keys and log formats
   (real_type_of at load, real_value_of per request), with the strict value typing *)
Theorem C08_type_soundness_entry_points :
  forall regex_match cidr_match_text rq fuel1 fuel2 e T,
    wf_lf e ->
    real_type_of regex_match cidr_match_text rq fuel1 [] e = Ok T ->
    match real_value_of regex_match cidr_match_text rq fuel2 [] e with
    | Ok v => vtyped_strict regex_match cidr_match_text rq v T
    | Err c => c <> E_TYPE
    | Panic _ => False
    end.
Proof. exact soundness_let_free_real_strict. Qed.
Print Assumptions C08_type_soundness_entry_points.

(* the checker itself never panics on such expressions and never produces `any` *)
Theorem C08_checker_total :
  forall regex_match cidr_match_text rq fuel e,
    wf_lf e ->
    match type_of regex_match cidr_match_text rq fuel [] e with
    | Ok T => goodb T = true
    | Err _ => True
    | Panic _ => False
    end.
Proof. exact type_of_total_good. Qed.
Print Assumptions C08_checker_total.

(* the executable well-formedness test used by the correspondence check implies wf_lf *)
Theorem C08_wf_check_sound : forall e, wf_lfb e = true -> wf_lf e.
Proof. exact wf_lfb_sound. Qed.
Print Assumptions C08_wf_check_sound.

(* ---- programs with let ---------------------------------------------------------------------- *)
(* The fragment wf_sl (MiluSoundLet.v): everything let-free, plus lets that may nest and shadow, whose bound
   expressions do not take their value from an index or tuple projection, whose bound names appear only as
   arguments of builtins that force their arguments, and whose array / tuple literals mention no let-bound name.
   For it the checker is sound: accepted programs never end in a type error. *)
Theorem C08_type_soundness_with_let :
  forall regex_match cidr_match_text rq fuel1 fuel2 e T,
    wf_sl e ->
    type_of regex_match cidr_match_text rq fuel1 [] e = Ok T ->
    match value_of regex_match cidr_match_text rq fuel2 [] e with
    | Ok v => vtyped regex_match cidr_match_text rq v T
    | Err c => c <> E_TYPE
    | Panic _ => False
    end.
Proof. exact soundness_scalar_let. Qed.
Print Assumptions C08_type_soundness_with_let.

Theorem C08_type_soundness_with_let_entry_points :
  forall regex_match cidr_match_text rq fuel1 fuel2 e T,
    wf_sl e ->
    real_type_of regex_match cidr_match_text rq fuel1 [] e = Ok T ->
    match real_value_of regex_match cidr_match_text rq fuel2 [] e with
    | Ok v => vtyped_strict regex_match cidr_match_text rq v T
    | Err c => c <> E_TYPE
    | Panic _ => False
    end.
Proof. exact soundness_scalar_let_real_strict. Qed.
Print Assumptions C08_type_soundness_with_let_entry_points.

Theorem C08_let_fragment_contains_let_free : forall e, wf_lf e -> wf_sl e.
Proof. exact wf_lf_wf_sl. Qed.
Print Assumptions C08_let_fragment_contains_let_free.

Theorem C08_let_fragment_check_sound : forall e, wf_slb e = true -> wf_sl e.
Proof. exact wf_slb_sound. Qed.
Print Assumptions C08_let_fragment_check_sound.
