(* Property C19 — service resumes after an upstream outage without restarting the proxy.
   Model: Recovery.v (connectors that dial per request; the QUIC connector's cached connection with the transport's
   idle timeout).  The transport parameters and the cache discipline are regenerated from the source (Gen_quic.v). *)
From RP Require Import Base Recovery RecoveryProofs.
From RP.Gen Require Gen_quic.

Theorem C19_stateless_recovers_immediately : stateless_request true = Served /\ stateless_request false = Failed.
Proof. exact stateless_recovers_immediately. Qed.
Print Assumptions C19_stateless_recovers_immediately.

(* a request through the QUIC connector can only hang between the death of the cached connection's peer and the
   transport's idle timeout *)
Theorem C19_hang_is_bounded : forall s t now_up s', sane s t -> qrequest s t now_up = (s', Hangs) ->
  exists c d, cache s = Some c /\ died c = Some d /\ d <= t /\ t < d + IDLE.
Proof. exact hang_is_bounded. Qed.
Print Assumptions C19_hang_is_bounded.

(* once that timeout has passed: one failed request, then the next request that finds the upstream up is served *)
Theorem C19_quic_recovers_after_one_failure : forall c d i2 t1 t2 up1,
  died c = Some d -> d + IDLE <= t1 -> t1 <= t2 -> up_at i2 t2 = true ->
  let '(s1, v1) := qrequest (mk_q (Some c)) t1 up1 in
  let '(s2, v2) := qrequest s1 t2 (Some i2) in
  v1 = Failed /\ v2 = Served /\ cache s2 = Some i2.
Proof. exact quic_recovers_after_one_failure. Qed.
Print Assumptions C19_quic_recovers_after_one_failure.

Theorem C19_live_connection_served : forall s c t now_up, cache s = Some c -> up_at c t = true ->
  qrequest s t now_up = (s, Served).
Proof. exact live_connection_served. Qed.
Print Assumptions C19_live_connection_served.

Theorem C19_failed_leaves_cache_empty : forall s t now_up s', qrequest s t now_up = (s', Failed) -> cache s' = None.
Proof. exact failed_leaves_cache_empty. Qed.
Print Assumptions C19_failed_leaves_cache_empty.

Theorem C19_source_shape :
  Gen_quic.client_keep_alive_s < Gen_quic.client_idle_timeout_s /\ Gen_quic.client_idle_timeout_s <= 60 /\
  Gen_quic.quic_errors_clear_the_cache = true /\ Gen_quic.open_bi_error_is_tagged_quic = true /\
  Gen_quic.connection_created_when_cache_empty = true.
Proof. repeat split; try reflexivity; intros H; discriminate. Qed.
Print Assumptions C19_source_shape.

Example C19_example :
  let c := mk_inc 0 (Some 100) in let i2 := mk_inc 101 None in
  snd (qrequest (mk_q (Some c)) 110 (Some i2)) = Hangs /\
  snd (qrequest (mk_q (Some c)) 130 (Some i2)) = Failed /\
  snd (qrequest (mk_q None) 131 (Some i2)) = Served.
Proof. exact recovery_example. Qed.
