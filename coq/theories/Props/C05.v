(* Property C05 — no remote input can crash the proxy (decoder part: every byte string, every
   segmentation, every datagram sequence; panic-site inventory; abort-on-panic premise).
   Only property theorems (closed by `exact`) and their assumption printouts. *)
From RP Require Import Base Stream StreamProofs Target Socks Http Frames Frag FragProofs C05Proofs.
From RP Require PanicSites.
From RP.Gen Require Gen_panics Gen_profile.

(* a crash-free reader program never reports a panic: any input, any segmentation, any EOF *)
Theorem C05_crashfree_any_segmentation : forall (A : Type) (p : rp A), crashfree p ->
  forall cs, wf_chunks cs -> not_panic (fst (fst (run_chunked p ([], cs)))).
Proof. exact @crashfree_run_chunked. Qed.
Print Assumptions C05_crashfree_any_segmentation.

Theorem C05_socks_request_crashfree : forall required, crashfree (read_request required).
Proof. exact cf_read_request. Qed.
Print Assumptions C05_socks_request_crashfree.
Theorem C05_socks_response_crashfree : crashfree read_response.
Proof. exact cf_read_response. Qed.
Print Assumptions C05_socks_response_crashfree.
Theorem C05_http_request_crashfree : forall fuel, crashfree (read_http_request fuel).
Proof. exact cf_read_http_request. Qed.
Print Assumptions C05_http_request_crashfree.
Theorem C05_http_response_crashfree : forall fuel, crashfree (read_http_response fuel).
Proof. exact cf_read_http_response. Qed.
Print Assumptions C05_http_response_crashfree.
Theorem C05_connect_crashfree : forall parse_sockaddr fuel, crashfree (read_connect parse_sockaddr fuel).
Proof. exact cf_read_connect. Qed.
Print Assumptions C05_connect_crashfree.

(* upstream replies to the SOCKS5 connector *)
Theorem C05_socks_client_never_panics : forall cmd t auth, t <> TUnknown -> forall s,
  not_panic (fst (fst (run_whole (write_req_v5 cmd t auth) s))).
Proof. exact socks_client_never_panics. Qed.
Print Assumptions C05_socks_client_never_panics.

(* buffer decoders: every byte string *)
Theorem C05_from_buffer_never_panics : forall buf, is_panic (from_buffer buf) = false.
Proof. exact from_buffer_never_panics. Qed.
Print Assumptions C05_from_buffer_never_panics.
Theorem C05_decode_address_never_panics : forall buf, is_panic (decode_address buf) = false.
Proof. exact decode_address_never_panics. Qed.
Print Assumptions C05_decode_address_never_panics.
Theorem C05_decode_udp_never_panics : forall b, is_panic (decode_udp b) = false.
Proof. exact decode_udp_never_panics. Qed.
Print Assumptions C05_decode_udp_never_panics.
Theorem C05_stream_frame_reader_never_panics : forall cs rem, is_panic (fst (fst (sfr_read rem cs))) = false.
Proof. exact sfr_read_never_panics. Qed.
Print Assumptions C05_stream_frame_reader_never_panics.

(* QUIC datagram fragments: every datagram sequence from every reachable state *)
Theorem C05_fragments_never_panic :
  forall (T : Type) (from_buffer : bytes -> option T) ovf timeout ops now st,
  wf st -> Forall (fun r => match r with Some o => is_panic o = false | None => True end)
                  (frag_run T from_buffer ovf timeout now st ops).
Proof. exact frag_run_never_panics. Qed.
Print Assumptions C05_fragments_never_panic.

(* the inventory of potential panic sites in the peer-facing files is the audited one *)
Theorem C05_sites_fingerprint : map fst PanicSites.expected = Gen_panics.sites.
Proof. exact sites_fingerprint. Qed.
Print Assumptions C05_sites_fingerprint.

Theorem C05_profile_premise :
  Gen_profile.release_panic_aborts = true /\ Gen_profile.release_overflow_checks = false.
Proof. exact profile_premise. Qed.
Print Assumptions C05_profile_premise.
