(* Property C12 — stream decoders are insensitive to how the network segments the bytes.
   Only property theorems (closed by `exact`) and their assumption printouts. *)
From RP Require Import Base Stream StreamProofs Target Socks Http Frames CodecProofs.

(* For EVERY reader program (hence every handshake decoder of the model) and every list of
   non-empty segments: same result, same bytes written to the peer, and the bytes left unread
   (BufReader buffer ++ segments in flight) are exactly the suffix the whole-input run leaves. *)
Theorem C12_chunking_irrelevant : forall (A : Type) (p : rp A) (s : sst), wf_chunks (snd s) ->
  let '(r1, s1, w1) := run_chunked p s in
  let '(r2, rest2, w2) := run_whole p (flat s) in
  r1 = r2 /\ flat s1 = rest2 /\ w1 = w2 /\ wf_chunks (snd s1).
Proof. exact @chunking_irrelevant. Qed.
Print Assumptions C12_chunking_irrelevant.

(* Truncation: a strict decoder never accepts a proper prefix of a message it consumes exactly,
   under any segmentation of that prefix. *)
Theorem C12_truncation_never_ok : forall (A : Type) (p : rp A), strict p -> forall m a w,
  run_whole p m = (ROk a, [], w) ->
  forall cs, wf_chunks cs -> (length (concat cs) < length m)%nat ->
  concat cs = firstn (length (concat cs)) m ->
  forall a' s' w', run_chunked p ([], cs) <> (ROk a', s', w').
Proof. exact @truncation_never_ok_chunked. Qed.
Print Assumptions C12_truncation_never_ok.

(* Every decoder of the model is strict. *)
Theorem C12_socks_request_strict : forall required, strict (read_request required).
Proof. exact strict_read_request. Qed.
Print Assumptions C12_socks_request_strict.
Theorem C12_socks_response_strict : strict read_response.
Proof. exact strict_read_response. Qed.
Print Assumptions C12_socks_response_strict.
Theorem C12_http_request_strict : forall fuel, strict (read_http_request fuel).
Proof. exact strict_read_http_request. Qed.
Print Assumptions C12_http_request_strict.
Theorem C12_http_response_strict : forall fuel, strict (read_http_response fuel).
Proof. exact strict_read_http_response. Qed.
Print Assumptions C12_http_response_strict.

(* The length-prefixed frame reader: the frames delivered and the way the stream ends do not
   depend on the segmentation (a partial frame at end of stream is a clean end, never a frame). *)
Theorem C12_frame_reader_stitching : forall fuel cs rem, wf_chunks cs ->
  sfr_all fuel rem cs = sfr_all fuel (rem ++ concat cs) [].
Proof. exact frame_reader_stitching. Qed.
Print Assumptions C12_frame_reader_stitching.

(* Non-vacuity: a SOCKS4a request delivered one byte at a time with pipelined payload. *)
Example C12_example :
  run_chunked (read_request false) ([], [[4]; [1]; [0]; [80]; [0]; [0]; [0]; [1]; [105]; [0]; [97]; [46]; [98]; [0]; [9]; [9]])
  = (ROk (mk_sreq 4 1 (TDomain [97; 46; 98] 80) (Some ([105], []))), ([], [[9]; [9]]), []).
Proof. vm_compute. reflexivity. Qed.
