(* Property C07 — configured peer authentication is enforced on every path.
   Model: Auth.v.  The external command, rustls' verifiers and the WebPKI verifier are oracles; which verifier each
   listener / connector is built with is regenerated from the source (Gen_auth.v). *)
From RP Require Import Base Auth AuthProofs.
From RP.Gen Require Gen_auth.

Theorem C07_required_never_selects_none : forall ms, select_method true ms <> Some 0.
Proof. exact required_never_selects_none. Qed.
Print Assumptions C07_required_never_selects_none.

Theorem C07_selected_was_offered : forall required ms m, select_method required ms = Some m -> containsN m ms = true.
Proof. exact selected_was_offered. Qed.
Print Assumptions C07_selected_was_offered.

(* for every configuration, every command behaviour, every history of attempts (cache_ok holds along all of them):
   an accepted attempt is authorised *)
Theorem C07_accepted_means_authorised : forall cfg cmd c now k, cache_ok cfg cmd c ->
  fst (check cfg cmd c now k) = true ->
  a_required cfg = false \/
  exists u, k = Some u /\ (In u (a_users cfg) \/
            (a_has_cmd cfg = true /\ exists t0, cmd u t0 = true /\ t0 <= now /\ (t0 = now \/ now < t0 + a_cache_timeout cfg)) \/
            (a_has_cmd cfg = true /\ exists t0, cmd u t0 = true /\ now < t0 + a_cache_timeout cfg)).
Proof. exact accepted_means_authorised. Qed.
Print Assumptions C07_accepted_means_authorised.

Theorem C07_cache_invariant_along_attempts : forall cfg cmd l c, cache_ok cfg cmd c ->
  cache_ok cfg cmd (snd (attempts cfg cmd c l)).
Proof. exact attempts_keep_cache_ok. Qed.
Print Assumptions C07_cache_invariant_along_attempts.

Theorem C07_missing_credentials_refused : forall cfg cmd c now, a_required cfg = true -> fst (check cfg cmd c now None) = false.
Proof. exact missing_credentials_refused. Qed.
Print Assumptions C07_missing_credentials_refused.

Theorem C07_cache_only_for_identical_pair : forall k k' v e now, k <> k' -> cache_get [(k', v, e)] k now = None.
Proof. exact other_credentials_not_served_from_cache. Qed.
Print Assumptions C07_cache_only_for_identical_pair.

Theorem C07_cache_only_until_expiry : forall k v e now, e <= now -> cache_get [(k, v, e)] k now = None.
Proof. exact expired_entry_not_used. Qed.
Print Assumptions C07_cache_only_until_expiry.

(* client-certificate policy on every listener kind *)
Theorem C07_required_policy_enforced : forall c,
  (listener_admits Gen_auth.http_listener_uses_policy PolicyRequired c = true -> c = CertFromConfiguredCA) /\
  (listener_admits Gen_auth.socks_listener_uses_policy PolicyRequired c = true -> c = CertFromConfiguredCA) /\
  (listener_admits Gen_auth.quic_listener_uses_policy PolicyRequired c = true -> c = CertFromConfiguredCA).
Proof.
  intros c. split; [apply required_policy_enforced_everywhere|]. split; [apply required_policy_enforced_socks|apply required_policy_enforced_quic].
Qed.
Print Assumptions C07_required_policy_enforced.

Theorem C07_secure_connector_needs_good_cert : forall s, connector_accepts false s = true -> s = ServerGood.
Proof. exact secure_connector_needs_good_cert. Qed.
Print Assumptions C07_secure_connector_needs_good_cert.

(* a listener built without the configured policy (QUIC before fix 0bb4080) admits a peer without certificate *)
Theorem C07_policy_ignored_refuted : listener_admits false PolicyRequired NoCert = true.
Proof. exact policy_ignored_refuted. Qed.
Print Assumptions C07_policy_ignored_refuted.

Theorem C07_source_shape :
  Gen_auth.select_method_shape = true /\ Gen_auth.check_shape = true /\ Gen_auth.cache_keyed_by_exact_pair_and_expires = true /\
  Gen_auth.socks_check_gates_every_enqueue = true /\ Gen_auth.connectors_verify_unless_insecure = true /\
  Gen_auth.connectors_use_configured_server_name = true.
Proof. repeat split; reflexivity. Qed.
Print Assumptions C07_source_shape.
