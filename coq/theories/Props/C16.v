(* Property C16 — every connection is accounted for exactly once with a truthful record.
   Model: Registry.v (create_context / Drop for Context / gc_thread of src/context.rs; the state log written by the
   listeners, process_request and copy_bidi).  All registry theorems hold for every history size and every sequence
   of create / end / collect operations. *)
From RP Require Import Base Registry RegistryProofs.
From RP.Gen Require Gen_relay.
Local Open Scope nat_scope.

Theorem C16_ids_unique : forall size ops, NoDup (created (rrun size ops)) /\
  (forall i, In i (r_alive (rrun size ops)) -> i < r_next (rrun size ops)).
Proof. exact ids_unique. Qed.
Print Assumptions C16_ids_unique.

(* everything that ended is either waiting for the collector or in the log: never both, never twice *)
Theorem C16_ended_once : forall size ops, NoDup (r_log (rrun size ops) ++ r_dropped (rrun size ops)).
Proof. exact ended_once. Qed.
Print Assumptions C16_ended_once.

(* listed as live exactly while it exists *)
Theorem C16_live_view_spec : forall size ops i, let s := rrun size ops in
  In i (live_view s) <-> (i < r_next s /\ ~ In i (r_log s) /\ ~ In i (r_dropped s)).
Proof. exact live_view_spec. Qed.
Print Assumptions C16_live_view_spec.

(* the history is the `size` newest log entries, newest first: bounded, without repetition *)
Theorem C16_history_is_newest_first : forall size ops, let s := rrun size ops in
  r_history s = firstn size (rev (r_log s)).
Proof. exact history_is_newest_first. Qed.
Print Assumptions C16_history_is_newest_first.

Theorem C16_history_bounded_nodup : forall size ops,
  length (r_history (rrun size ops)) <= size /\ NoDup (r_history (rrun size ops)).
Proof. intros size ops. split; [apply history_bounded|apply history_nodup]. Qed.
Print Assumptions C16_history_bounded_nodup.

Theorem C16_gc_collects_everything : forall size ops, r_dropped (rrun size (ops ++ [Gc])) = [] /\
  (forall i, In i (r_dropped (rrun size ops)) -> In i (r_log (rrun size (ops ++ [Gc])))).
Proof. exact gc_collects_everything. Qed.
Print Assumptions C16_gc_collects_everything.

(* every way a connection can end leaves a state log that follows the lifecycle and ends in exactly one terminal state *)
Theorem C16_every_outcome_has_a_regular_log : forall o, lifecycle_ok (state_log o) = true.
Proof. exact every_outcome_has_a_regular_log. Qed.
Print Assumptions C16_every_outcome_has_a_regular_log.

(* byte counters: every hand-over of read-ahead bytes and every relay arm credits the counter of its own direction
   (regenerated from src/copy.rs on every run) *)
Theorem C16_source_shape :
  Gen_relay.handover_credited_to_own_direction = true /\ Gen_relay.relay_halves_use_own_counters = true /\
  Gen_relay.every_relay_arm_counts = true.
Proof. repeat split; reflexivity. Qed.
Print Assumptions C16_source_shape.

(* the record a failed handshake used to leave (before fix 16f9e6d) is not a regular log *)
Example C16_lifecycle_rejects : lifecycle_ok [ClientConnected] = false /\
  lifecycle_ok [ClientConnected; ClientRequested; ErrorOccured; Terminated] = false /\
  lifecycle_ok [ClientConnected; Connected; ClientRequested; ErrorOccured] = false /\
  lifecycle_ok [ClientConnected; ClientRequested; ServerConnecting; Connected; ClientShutdown; Terminated] = false.
Proof. exact lifecycle_rejects. Qed.
