(* Property C04 — end-of-stream is relayed faithfully, identically in both I/O modes.
   Model: Relay.v.  h_fin is the shutdown of the destination's write side. *)
From RP Require Import Base Relay RelayProofs.
From RP.Gen Require Gen_relay.
Local Open Scope nat_scope.

(* the other endpoint observes end-of-stream only after every byte sent before it *)
Theorem C04_fin_only_after_everything : forall m bufsz input os, 0 < bufsz ->
  h_fin (hrun m bufsz (h_init input) os) = true -> h_out (hrun m bufsz (h_init input) os) = input.
Proof. exact fin_only_after_everything. Qed.
Print Assumptions C04_fin_only_after_everything.

(* and it does observe it: every run given enough steps ends with the mark set *)
Theorem C04_fin_is_relayed : forall m bufsz input os, 0 < bufsz -> 2 * length input + 1 <= length os ->
  let s := hrun m bufsz (h_init input) os in
  h_phase s = PDone /\ h_out s = input /\ h_fin s = true.
Proof. exact half_delivers_everything. Qed.
Print Assumptions C04_fin_is_relayed.

(* the opposite direction keeps flowing: a step of one direction never changes the other *)
Theorem C04_directions_independent : forall m bufsz t o,
  t_s2c (tstep m bufsz t true o) = t_s2c t /\ t_c2s (tstep m bufsz t false o) = t_c2s t.
Proof. intros m bufsz t o. split; reflexivity. Qed.
Print Assumptions C04_directions_independent.

(* the same in both modes, for any two environments *)
Theorem C04_modes_agree : forall bufsz1 bufsz2 input os1 os2, 0 < bufsz1 -> 0 < bufsz2 ->
  2 * length input + 1 <= length os1 -> 2 * length input + 1 <= length os2 ->
  let a := hrun Buffered bufsz1 (h_init input) os1 in
  let b := hrun Splice bufsz2 (h_init input) os2 in
  h_out a = h_out b /\ h_fin a = h_fin b.
Proof. exact modes_agree. Qed.
Print Assumptions C04_modes_agree.

(* before fix f9fc70e the splice loop ended without the mark *)
Theorem C04_splice_without_shutdown_refuted : exists input bufsz os,
  let s := fold_left (hstep_v0 bufsz) os (h_init input) in
  h_phase s = PDone /\ h_out s <> input /\ h_fin s = false.
Proof. exact splice_v0_loses_tail. Qed.
Print Assumptions C04_splice_without_shutdown_refuted.

Theorem C04_source_shape :
  Gen_relay.rawfd_destination_shut_down = true /\ Gen_relay.stream_destination_shut_down = true /\
  Gen_relay.frames_destination_shut_down = true /\ Gen_relay.splice_breaks_on_zero_read = true /\
  Gen_relay.bidi_runs_two_halves_until_both_done = true /\ Gen_relay.io_errors_abort_both_directions = true.
Proof. repeat split; reflexivity. Qed.
Print Assumptions C04_source_shape.

Example C04_example :
  h_fin (hrun Buffered 3 (h_init [1; 2; 3; 4]%N) [3; 3]) = false /\ h_fin (hrun Buffered 3 (h_init [1; 2; 3; 4]%N) [3; 3; 0]) = true.
Proof. split; reflexivity. Qed.
