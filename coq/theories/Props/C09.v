(* Property C09 — the parser accepts the documented grammar and precedence.
   The parser model (MiluParser.v) is instantiated with the operator ladder that the translator
   regenerates from milu/src/parser.rs on every run (Gen/Gen_ladder.v), and the documented table
   comes from milu/readme.md through the same file.  Every theorem below is a complete
   enumeration of a finite family, evaluated inside Coq on that instantiated model; the
   unbounded statement parse_print_roundtrip of DESIGN.md is NOT proved (see level_note). *)
From RP Require Import Base Target MiluSyntax MiluParser MiluDoc C09Proofs.
From RP.Gen Require Import Gen_ladder.
From Coq Require Import String.

(* every documented binary operator alone, with every documented spelling *)
Theorem C09_every_operator_accepted : forallb check_single (no_dot doc_binary) = true.
Proof. exact singles_ok. Qed.
Print Assumptions C09_every_operator_accepted.

(* every ordered pair: documented precedence, left associativity on equal precedence *)
Theorem C09_all_pairs_precedence :
  forallb (fun d1 => forallb (check_pair d1) (no_dot doc_binary)) (no_dot doc_binary) = true.
Proof. exact pairs_ok. Qed.
Print Assumptions C09_all_pairs_precedence.

Theorem C09_access_pairs :
  forallb (fun d1 => forallb (fun d2 => check_pair d1 d2 && check_pair d2 d1) doc_binary)
          (filter (fun d => String.eqb (snd (fst d)) ".") doc_binary) = true.
Proof. exact pairs_with_access_ok. Qed.
Print Assumptions C09_access_pairs.

(* every ordered triple over one representative per precedence level *)
Theorem C09_all_triples_precedence :
  let r := reps (no_dot doc_binary) [] in
  forallb (fun d1 => forallb (fun d2 => forallb (check_triple d1 d2) r) r) r = true.
Proof. exact triples_ok. Qed.
Print Assumptions C09_all_triples_precedence.

Theorem C09_unary_binds_tighter :
  forallb (fun u => forallb (check_unary u) (no_dot doc_binary)) doc_unary = true.
Proof. exact unary_ok. Qed.
Print Assumptions C09_unary_binds_tighter.

Theorem C09_unary_right_to_left_postfix_tighter :
  forallb (fun u1 => forallb (check_unary_chain u1) doc_unary) doc_unary = true.
Proof. exact unary_chain_ok. Qed.
Print Assumptions C09_unary_right_to_left_postfix_tighter.

Theorem C09_postfix : forallb check_postfix (no_dot doc_binary) && check_postfix_chain = true.
Proof. exact postfix_ok. Qed.
Print Assumptions C09_postfix.

Theorem C09_conditional_and_scope : forallb check_level0 (no_dot doc_binary) && check_level0_nest = true.
Proof. exact level0_ok. Qed.
Print Assumptions C09_conditional_and_scope.

(* ordered choice never hides a tag; a tighter level never steals the prefix of a looser tag *)
Theorem C09_tags_not_shadowed :
  forallb (fun l => ordered_ok (lv_tags l)) levels = true /\ forallb cross_ok levels = true.
Proof. split; [exact tags_ordered_ok|exact tags_cross_ok]. Qed.
Print Assumptions C09_tags_not_shadowed.

Theorem C09_doc_table_realised : documented_present = true /\ every_tag_mapped = true.
Proof. split; [exact documented_present_ok|exact tags_mapped_ok]. Qed.
Print Assumptions C09_doc_table_realised.

(* blanks (white space, line breaks, # and / * * / comments) at every token boundary of the
   sample forms do not change the tree *)
Theorem C09_blank_insensitive_samples :
  forallb (fun f => forallb (check_filler f) (no_dot doc_binary)) fillers = true.
Proof. exact fillers_ok. Qed.
Print Assumptions C09_blank_insensitive_samples.
