(* Property C09 — the parser accepts the documented grammar and precedence.
   The parser model (MiluParser.v) is instantiated with the operator ladder that the translator
   regenerates from milu/src/parser.rs on every run (Gen/Gen_ladder.v), and the documented table
   comes from milu/readme.md through the same file.  Every theorem below is a complete
   enumeration of a finite family, evaluated inside Coq on that instantiated model, except the last
   group: C09_parse_print_roundtrip is the unbounded statement (every well-formed tree of any size and
   depth, printed with only the necessary parentheses, parses back to itself), proved by induction in
   MiluRoundtrip.v for the regenerated ladder, and C09_blank_irrelevant covers every closed filler. *)
From RP Require Import Base Target MiluSyntax MiluParser MiluDoc C09Proofs KwProofs RtBlank RtLeaf MiluRoundtrip MiluRoundtripWs.
From RP.Gen Require Import Gen_ladder.
From Coq Require Import String ZArith Lia List.
Import ListNotations.

(* every documented binary operator alone, with every documented spelling *)
Theorem C09_every_operator_accepted : forallb check_single (no_dot doc_binary) = true.
Proof. exact singles_ok. Qed.
Print Assumptions C09_every_operator_accepted.

(* every ordered pair: documented precedence, left associativity on equal precedence *)
Theorem C09_all_pairs_precedence :
  forallb (fun d1 => forallb (check_pair d1) (no_dot doc_binary)) (no_dot doc_binary) = true.
Proof. exact pairs_ok. Qed.
Print Assumptions C09_all_pairs_precedence.

Theorem C09_access_pairs :
  forallb (fun d1 => forallb (fun d2 => check_pair d1 d2 && check_pair d2 d1) doc_binary)
          (filter (fun d => String.eqb (snd (fst d)) ".") doc_binary) = true.
Proof. exact pairs_with_access_ok. Qed.
Print Assumptions C09_access_pairs.

(* every ordered triple over one representative per precedence level *)
Theorem C09_all_triples_precedence :
  let r := reps (no_dot doc_binary) [] in
  forallb (fun d1 => forallb (fun d2 => forallb (check_triple d1 d2) r) r) r = true.
Proof. exact triples_ok. Qed.
Print Assumptions C09_all_triples_precedence.

Theorem C09_unary_binds_tighter :
  forallb (fun u => forallb (check_unary u) (no_dot doc_binary)) doc_unary = true.
Proof. exact C09Proofs.unary_ok. Qed.
Print Assumptions C09_unary_binds_tighter.

Theorem C09_unary_right_to_left_postfix_tighter :
  forallb (fun u1 => forallb (check_unary_chain u1) doc_unary) doc_unary = true.
Proof. exact unary_chain_ok. Qed.
Print Assumptions C09_unary_right_to_left_postfix_tighter.

Theorem C09_postfix : forallb check_postfix (no_dot doc_binary) && check_postfix_chain = true.
Proof. exact postfix_ok. Qed.
Print Assumptions C09_postfix.

Theorem C09_conditional_and_scope : forallb check_level0 (no_dot doc_binary) && check_level0_nest = true.
Proof. exact level0_ok. Qed.
Print Assumptions C09_conditional_and_scope.

(* ordered choice never hides a tag; a tighter level never steals the prefix of a looser tag *)
Theorem C09_tags_not_shadowed :
  forallb (fun l => ordered_ok (lv_tags l)) levels = true /\ forallb cross_ok levels = true.
Proof. split; [exact tags_ordered_ok|exact tags_cross_ok]. Qed.
Print Assumptions C09_tags_not_shadowed.

Theorem C09_doc_table_realised : documented_present = true /\ every_tag_mapped = true.
Proof. split; [exact documented_present_ok|exact tags_mapped_ok]. Qed.
Print Assumptions C09_doc_table_realised.

(* blanks (white space, line breaks, # and / * * / comments) at every token boundary of the
   sample forms do not change the tree *)
Theorem C09_blank_insensitive_samples :
  forallb (fun f => forallb (check_filler f) (no_dot doc_binary)) fillers = true.
Proof. exact fillers_ok. Qed.
Print Assumptions C09_blank_insensitive_samples.

(* ---- the unbounded round trip ----------------------------------------------------------- *)
(* Trees: identifiers, decimal literals, every binary operator of every level of the regenerated ladder,
   every unary operator, index, member access, calls with any number of arguments, the conditional.
   m_print inserts parentheses only where precedence / associativity need them; m_denote is the AST the
   documented table prescribes.  m_wf: identifiers not starting a keyword, literals within i64, indices in
   range.  The fuel is the one parse itself supplies. *)
Theorem C09_parse_print_roundtrip : forall t, m_wf t ->
  parse levels parse2_table parse1_table unary_tags MiluDoc.top_rule ternary_cond_rule (m_print t)
  = POk (m_denote t) [].
Proof. exact roundtrip. Qed.
Print Assumptions C09_parse_print_roundtrip.

Theorem C09_number_literals : forall n, n <= I64_MAX -> m_wf (TNum n) /\ m_denote (TNum n) = EInt (Z.of_N n).
Proof. intros n H. split; [exact (wf_TNum n H)|exact (denote_TNum n)]. Qed.
Print Assumptions C09_number_literals.

(* white space and closed comments between tokens are skipped, whatever they contain *)
Theorem C09_blank_irrelevant : forall bs i, blank_str bs -> skip_blank (bs ++ i) = skip_blank i.
Proof. exact skip_blank_closed. Qed.
Print Assumptions C09_blank_irrelevant.

(* white space, line breaks and comments between tokens never change the result: the same round trip when EVERY
   token gap carries its own arbitrary non-empty blank filler (white space, closed # and /* */ comments); the k-th
   gap in printing order receives f k, and with a single space everywhere the printer is m_print *)
Theorem C09_parse_print_roundtrip_any_filler : forall f t, m_wf t -> filler_ok f ->
  parse levels parse2_table parse1_table unary_tags MiluDoc.top_rule ternary_cond_rule (m_print_ws f t)
  = POk (m_denote t) [].
Proof. exact roundtrip_ws. Qed.
Print Assumptions C09_parse_print_roundtrip_any_filler.

Theorem C09_filler_printer_is_the_printer : forall t, m_print_ws (fun _ => [32]) t = m_print t.
Proof. exact m_print_ws_spaces. Qed.
Print Assumptions C09_filler_printer_is_the_printer.

Theorem C09_fillers_sit_between_tokens : forall f t,
  m_print_ws f t = weave (m_toks t) f 0 /\ List.length (m_toks t) = S (m_gaps t).
Proof. exact m_print_ws_tokens. Qed.
Print Assumptions C09_fillers_sit_between_tokens.

Theorem C09_blank_invariance : forall f g t, m_wf t -> filler_ok f -> filler_ok g ->
  parse levels parse2_table parse1_table unary_tags MiluDoc.top_rule ternary_cond_rule (m_print_ws f t) =
  parse levels parse2_table parse1_table unary_tags MiluDoc.top_rule ternary_cond_rule (m_print_ws g t).
Proof. exact blank_invariance. Qed.
Print Assumptions C09_blank_invariance.

(* non-vacuity: a tree using a conditional, two binary levels, a unary operator, a call, an index and a member
   access is well formed; its printed form needs exactly one pair of parentheses *)
Definition C09_example_tree : tree :=
  let s := bytes_of_string in
  TCond (TBin 3 0 (TAtom (s "a"%string)) (TBin 1 0 (TAtom (s "b"%string)) (TNum 3)))
        (TCall (TAtom (s "g"%string)) [TUn 0 (TAtom (s "x"%string)); TIndex (TAtom (s "y"%string)) (TNum 0)])
        (TBin 1 0 (TBin 3 0 (TNum 1) (TNum 2)) (TAccess (TAtom (s "r"%string)) (s "port"%string))).
Example C09_roundtrip_example :
  m_wf C09_example_tree /\
  string_of_bytes (m_print C09_example_tree) = "a >= b + 3 ? g ( ! x , y [ 0 ] ) : ( 1 >= 2 ) + r . port"%string.
Proof. split; [|vm_compute; reflexivity]. vm_compute. intuition (try discriminate; try lia). Qed.

(* ---- keywords end at a word boundary (fix in /repo: `if iface then a else b` is a conditional on the name iface) ---- *)

(* the source matches if / then / else / let / in with keyword(..) and neither rule commits with cut() - regenerated *)
Theorem C09_keywords_source_shape :
  Gen_ladder.keywords_word_bounded = true /\ Gen_ladder.keyword_rules_do_not_commit = true.
Proof. split; reflexivity. Qed.
Print Assumptions C09_keywords_source_shape.

(* a keyword followed by a letter, digit or underscore is not that keyword, whatever follows ... *)
Theorem C09_keyword_refuses_longer_word : forall k b r, is_idc b = true -> kw k (k ++ b :: r) = None.
Proof. exact kw_refuses_longer_word. Qed.
Print Assumptions C09_keyword_refuses_longer_word.

(* ... and followed by anything else (or nothing) it is *)
Theorem C09_keyword_accepted_at_boundary : forall k i r,
  tag k i = Some r -> (match r with b :: _ => is_idc b = false | [] => True end) -> kw k i = Some r.
Proof. exact kw_tag_nonid. Qed.
Print Assumptions C09_keyword_accepted_at_boundary.

(* the failing input of the former known finding, and the spelling that used to be read as `if x ...` *)
Example C09_if_prefixed_condition :
  KwProofs.parse_doc (bytes_of_string "if iface then a else b"%string)
  = POk (op3 "If"%string (EId (bytes_of_string "iface"%string)) (EId (bytes_of_string "a"%string)) (EId (bytes_of_string "b"%string))) [] /\
  KwProofs.parse_doc (bytes_of_string "ifx then a else b"%string) = PErr.
Proof. split; vm_compute; reflexivity. Qed.
