(* Property C15 — rule hot reload is atomic and all-or-nothing.
   Model: Reload.v over Dispatch.v.  The atomicity of a decision with respect to a concurrent
   replacement rests on two facts about the source that the translator re-extracts on every run
   (Gen_reload.v): the rule list is written exactly once, after every fallible step of set_rules,
   and process_request decides inside ONE read guard with no await inside the find_map closure. *)
From RP Require Import Base Target MiluSyntax MiluParser MiluDoc MiluEval Dispatch Reload ReloadProofs.
From RP.Gen Require Gen_reload.

Theorem C15_set_rules_ok_iff :
  forall parse_src regex_match cidr_match_text fuel rq0 conns srcs rs,
  set_rules parse_src regex_match cidr_match_text fuel rq0 conns srcs = Ok rs <->
  map_o (init_rule parse_src regex_match cidr_match_text fuel rq0) srcs = Ok rs /\
  forallb (target_known conns) rs = true.
Proof. exact set_rules_ok_iff. Qed.
Print Assumptions C15_set_rules_ok_iff.

Theorem C15_invalid_rule_anywhere_rejects :
  forall parse_src regex_match cidr_match_text fuel rq0 conns pre x post rs,
  (forall r, init_rule parse_src regex_match cidr_match_text fuel rq0 x <> Ok r) ->
  set_rules parse_src regex_match cidr_match_text fuel rq0 conns (pre ++ x :: post) <> Ok rs.
Proof. exact invalid_rule_anywhere_rejects. Qed.
Print Assumptions C15_invalid_rule_anywhere_rejects.

Theorem C15_set_rules_all_or_nothing :
  forall parse_src regex_match cidr_match_text fuel rq0 conns st srcs st' o,
  do_set parse_src regex_match cidr_match_text fuel rq0 conns st srcs = (st', o) ->
  (o = RoSet true /\ exists rs, set_rules parse_src regex_match cidr_match_text fuel rq0 conns srcs = Ok rs /\ st' = mk_rstate rs srcs) \/
  (o = RoSet false /\ st' = st /\ forall rs, set_rules parse_src regex_match cidr_match_text fuel rq0 conns srcs <> Ok rs).
Proof. exact set_rules_all_or_nothing. Qed.
Print Assumptions C15_set_rules_all_or_nothing.

Theorem C15_probe_uses_current_rules :
  forall parse_src regex_match cidr_match_text fuel rq0 conns st rq feature,
  rstep parse_src regex_match cidr_match_text fuel rq0 conns st (RProbe rq feature) =
  (st, RoTrace (process_request regex_match cidr_match_text fuel rq (rs_rules st) conns feature [])).
Proof. exact probe_uses_current_rules. Qed.
Print Assumptions C15_probe_uses_current_rules.

Theorem C15_get_post_identity :
  forall parse_src regex_match cidr_match_text fuel rq0 conns st,
  consistent parse_src regex_match cidr_match_text fuel rq0 conns st ->
  rstep parse_src regex_match cidr_match_text fuel rq0 conns st RIdentity = (st, RoSet true).
Proof. exact get_post_identity. Qed.
Print Assumptions C15_get_post_identity.

Theorem C15_consistency_is_invariant :
  forall parse_src regex_match cidr_match_text fuel rq0 conns st op,
  consistent parse_src regex_match cidr_match_text fuel rq0 conns st ->
  consistent parse_src regex_match cidr_match_text fuel rq0 conns (fst (rstep parse_src regex_match cidr_match_text fuel rq0 conns st op)).
Proof. exact rstep_consistent. Qed.
Print Assumptions C15_consistency_is_invariant.

(* the source skeleton the atomicity argument rests on *)
Theorem C15_reload_skeleton :
  Gen_reload.set_rules_write_count = 1 /\ Gen_reload.set_rules_fallible_after_write = false /\
  Gen_reload.decide_block_rules_reads = 1 /\ Gen_reload.decide_uses_find_map = true /\
  Gen_reload.decide_closure_awaits = 0.
Proof. repeat split. Qed.
Print Assumptions C15_reload_skeleton.
