(* Property C03 — destination integrity through every protocol re-encoding.
   Only property theorems (closed by `exact`) and their assumption printouts.
   Models: Socks.v, Http.v, Frames.v, Target.v. *)
From RP Require Import Base Stream StreamProofs Target Socks Http Frames C03Proofs HttpProofs.

(* SOCKS5 address field *)
Theorem C03_socks5_addr_roundtrip : forall t a rest,
  target_ok t -> addr_v5 t = Ok a -> run_whole read_addr_v5 (a ++ rest) = (ROk t, rest, []).
Proof. exact addr_v5_roundtrip. Qed.
Print Assumptions C03_socks5_addr_roundtrip.

Theorem C03_socks5_refuses_exactly : forall t,
  target_ok t -> ((exists e, addr_v5 t = Err e) <-> exists h p, t = TDomain h p /\ 255 < len h).
Proof. exact addr_v5_refuses_exactly. Qed.
Print Assumptions C03_socks5_refuses_exactly.

(* the whole SOCKS5 exchange (no authentication): connector writes, listener reads *)
Theorem C03_socks5_request_roundtrip : forall cmd t rest reply_rest,
  target_ok t -> (forall e, addr_v5 t <> Err e) ->
  exists w,
    run_whole (write_req_v5 cmd t None) ([5; 0] ++ reply_rest) = (ROk tt, reply_rest, w) /\
    run_whole (read_request false) (w ++ rest) = (ROk (mk_sreq 5 cmd t None), rest, [5; 0]).
Proof. exact socks5_request_roundtrip. Qed.
Print Assumptions C03_socks5_request_roundtrip.

(* SOCKS4 / SOCKS4a *)
Theorem C03_socks4_request_roundtrip : forall cmd t auth bs rest required,
  target_ok t -> utf8_valid (client_id auth) = true -> fits_v4 t auth ->
  write_req_v4 cmd t auth = Ok bs ->
  run_whole (read_request required) (bs ++ rest) =
  (ROk (mk_sreq 4 cmd t (Some (client_id auth, []))), rest, []).
Proof. exact socks4_request_roundtrip. Qed.
Print Assumptions C03_socks4_request_roundtrip.

Theorem C03_socks4_refuses_exactly : forall cmd t auth,
  target_ok t ->
  ((exists e, write_req_v4 cmd t auth = Err e) <->
   (has_nul (client_id auth) = true \/
    match t with
    | TDomain h _ => has_nul h = true
    | TV4 ip _ => ip < 256
    | TV6 _ _ => True
    | TUnknown => False
    end)).
Proof. exact socks4_refuses_exactly. Qed.
Print Assumptions C03_socks4_refuses_exactly.

(* RPFM frame header (UDP over stream / QUIC datagrams) *)
Theorem C03_rpfm_roundtrip : forall f bs extra,
  frame_ok f -> encode_frame f = Ok bs -> from_buffer (bs ++ extra) = Ok f.
Proof. exact frame_roundtrip. Qed.
Print Assumptions C03_rpfm_roundtrip.

Theorem C03_rpfm_refuses_exactly : forall f,
  (exists e, encode_frame f = Err e) <-> encodable f = false.
Proof. exact frame_refuses_exactly. Qed.
Print Assumptions C03_rpfm_refuses_exactly.

(* SOCKS5 UDP request header *)
Theorem C03_socksudp_roundtrip : forall t body bs,
  target_ok t -> encode_udp (Some t) body = Ok bs -> decode_udp bs = Ok (t, body).
Proof. exact udp_roundtrip. Qed.
Print Assumptions C03_socksudp_roundtrip.

(* HTTP CONNECT: the request written to the next hop is read back as the same destination
   (up to `canon`: a domain that is an IP literal is that address) and leaves exactly the
   following bytes; std's SocketAddr text form enters through the explicit premise
   sockaddr_text_ok. *)
Theorem C03_http_connect_roundtrip :
  forall (print_sockaddr : target -> bytes) (parse_sockaddr : bytes -> option target) t bs rest fuel,
  sockaddr_text_ok print_sockaddr parse_sockaddr -> target_ok t -> fits_line t -> (2 <= fuel)%nat ->
  write_connect print_sockaddr t = Ok bs ->
  run_whole (read_connect parse_sockaddr fuel) (bs ++ rest) =
  (ROk (canon print_sockaddr parse_sockaddr t), rest, []).
Proof. exact connect_roundtrip. Qed.
Print Assumptions C03_http_connect_roundtrip.

Theorem C03_http_connect_refuses_exactly : forall print_sockaddr t,
  (exists e, write_connect print_sockaddr t = Err e) <-> target_line_safe t = false.
Proof. exact connect_refuses_exactly. Qed.
Print Assumptions C03_http_connect_refuses_exactly.

(* Non-vacuity: the injection attempt of defect D12 is refused, an ordinary host goes through. *)
Example C03_example_refused :
  write_connect (fun _ => []) (TDomain [101; 118; 105; 108; 58; 49; 32; 72] 80) = Err E_UNSAFE_HOST.
Proof. reflexivity. Qed.
Example C03_example_ok :
  target_ok (TDomain [97; 46; 98] 80) /\ exists bs, write_connect (fun _ => []) (TDomain [97; 46; 98] 80) = Ok bs.
Proof. split; [split; [reflexivity|reflexivity]|eexists; reflexivity]. Qed.
