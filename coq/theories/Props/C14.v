(* Property C14 — the management API never blocks the data plane; a stalled client hurts only itself.
   Model: Locks.v.  Locks are (rank, instance): 0 history list, 1 registry of live contexts, 2 a context,
   3 rule list.  Ext is a wait for a peer that may never speak (a stalled client, a slow upstream).  The lock
   programs of the real functions are regenerated from the source on every run (Gen_locks.v). *)
From RP Require Import Base Locks LocksProofs.
From RP.Gen Require Gen_locks.
Local Open Scope nat_scope.

(* every function that locks the registry, the history list, the rule list or a context follows the discipline:
   ranks only increase while locks are held, and the peer is never waited for with a lock held *)
Theorem C14_generated_programs_disciplined :
  forallb (fun np => rank_disciplined [] (snd np)) Gen_locks.programs = true.
Proof. exact generated_programs_disciplined. Qed.
Print Assumptions C14_generated_programs_disciplined.

(* ... whatever context instances the acquisitions refer to *)
Theorem C14_generated_threads_ok : forall name p inst k, In (name, p) Gen_locks.programs ->
  thread_ok (mk_thread [] (instantiate inst k [] p)) = true.
Proof. exact generated_threads_ok. Qed.
Print Assumptions C14_generated_threads_ok.

(* a stalled client hurts only itself: whoever holds a lock is not waiting for a peer *)
Theorem C14_holder_not_at_ext : forall t l, thread_ok t = true -> holds t l = true ->
  match t_prog t with Ext :: _ => False | [] => False | _ => True end.
Proof. exact holder_not_at_ext. Qed.
Print Assumptions C14_holder_not_at_ext.

(* for any number of threads in any reachable state: whenever one waits for a lock, the thread at the end of the
   chain of holders can take its next step on its own - it needs neither another lock holder nor any peer *)
Theorem C14_waiting_implies_holder_runnable : forall s t l r, sys_ok s -> In t s -> t_prog t = Acq l :: r ->
  waiting s t = true ->
  exists u l', In u s /\ runnable s u = true /\ holds u l' = true /\ rank l <= rank l'.
Proof. exact waiting_implies_holder_runnable. Qed.
Print Assumptions C14_waiting_implies_holder_runnable.

Theorem C14_no_deadlock : forall s t, sys_ok s -> In t s -> waiting s t = true ->
  exists u, In u s /\ runnable s u = true.
Proof. exact waiting_implies_someone_runnable. Qed.
Print Assumptions C14_no_deadlock.

(* the invariant is kept by every step, so the two theorems above hold in every reachable state *)
Theorem C14_step_preserves_ok : forall s1 t s2, sys_ok (s1 ++ t :: s2) -> runnable (s1 ++ t :: s2) t = true ->
  sys_ok (s1 ++ do_step t :: s2).
Proof. exact step_preserves_ok. Qed.
Print Assumptions C14_step_preserves_ok.

Theorem C14_ext_step_preserves_ok : forall s1 t s2 r, sys_ok (s1 ++ t :: s2) -> t_prog t = Ext :: r ->
  sys_ok (s1 ++ do_step t :: s2).
Proof. exact ext_step_preserves_ok. Qed.
Print Assumptions C14_ext_step_preserves_ok.

(* the handshake as it was before fix fd26f68 - context locked across the read of the request - is not disciplined *)
Example C14_old_handshake_refuted :
  rank_disciplined [] [Gen_locks.Acq 2; Gen_locks.Ext; Gen_locks.Rel 2] = false.
Proof. reflexivity. Qed.
