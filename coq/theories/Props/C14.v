(* Property C14 — the management API never blocks the data plane; a stalled client hurts only itself.
   Model: Locks.v.  Locks are (rank, instance): 0 history list, 1 registry of live contexts, 2 a context,
   3 rule list.  Ext is a wait for a peer that may never speak (a stalled client, a slow upstream).  The lock
   programs of the real functions are regenerated from the source on every run (Gen_locks.v). *)
From RP Require Import Base Locks LocksProofs ServeLoop.
From Coq Require Import String.
From RP.Gen Require Gen_locks.
Local Open Scope nat_scope.

(* every function that locks the registry, the history list, the rule list or a context follows the discipline:
   ranks only increase while locks are held, and the peer is never waited for with a lock held *)
Theorem C14_generated_programs_disciplined :
  forallb (fun np => rank_disciplined [] (snd np)) Gen_locks.programs = true.
Proof. exact generated_programs_disciplined. Qed.
Print Assumptions C14_generated_programs_disciplined.

(* ... whatever context instances the acquisitions refer to *)
Theorem C14_generated_threads_ok : forall name p inst k, In (name, p) Gen_locks.programs ->
  thread_ok (mk_thread [] (instantiate inst k [] p)) = true.
Proof. exact generated_threads_ok. Qed.
Print Assumptions C14_generated_threads_ok.

(* a stalled client hurts only itself: whoever holds a lock is not waiting for a peer *)
Theorem C14_holder_not_at_ext : forall t l, thread_ok t = true -> holds t l = true ->
  match t_prog t with Ext :: _ => False | [] => False | _ => True end.
Proof. exact holder_not_at_ext. Qed.
Print Assumptions C14_holder_not_at_ext.

(* for any number of threads in any reachable state: whenever one waits for a lock, the thread at the end of the
   chain of holders can take its next step on its own - it needs neither another lock holder nor any peer *)
Theorem C14_waiting_implies_holder_runnable : forall s t l r, sys_ok s -> In t s -> t_prog t = Acq l :: r ->
  waiting s t = true ->
  exists u l', In u s /\ runnable s u = true /\ holds u l' = true /\ rank l <= rank l'.
Proof. exact waiting_implies_holder_runnable. Qed.
Print Assumptions C14_waiting_implies_holder_runnable.

Theorem C14_no_deadlock : forall s t, sys_ok s -> In t s -> waiting s t = true ->
  exists u, In u s /\ runnable s u = true.
Proof. exact waiting_implies_someone_runnable. Qed.
Print Assumptions C14_no_deadlock.

(* the invariant is kept by every step, so the two theorems above hold in every reachable state *)
Theorem C14_step_preserves_ok : forall s1 t s2, sys_ok (s1 ++ t :: s2) -> runnable (s1 ++ t :: s2) t = true ->
  sys_ok (s1 ++ do_step t :: s2).
Proof. exact step_preserves_ok. Qed.
Print Assumptions C14_step_preserves_ok.

Theorem C14_ext_step_preserves_ok : forall s1 t s2 r, sys_ok (s1 ++ t :: s2) -> t_prog t = Ext :: r ->
  sys_ok (s1 ++ do_step t :: s2).
Proof. exact ext_step_preserves_ok. Qed.
Print Assumptions C14_ext_step_preserves_ok.

(* the handshake as it was before fix fd26f68 - context locked across the read of the request - is not disciplined *)
Example C14_old_handshake_refuted :
  rank_disciplined [] [Gen_locks.Acq 2; Gen_locks.Ext; Gen_locks.Rel 2] = false.
Proof. reflexivity. Qed.

(* ---- accept loops: a client stalled in its handshake must not keep others from connecting ------------------------ *)

(* On every listener whose source the translator reads (http, socks, quic) the handshake is awaited in a task of the peer's
   own, so every connection attempt is taken up the moment it arrives - whatever the other peers do, including never
   completing their handshake.  (`inline_of` looks the listener up in Gen_locks.accept_loop_awaits_handshake_inline.) *)
Theorem C14_accept_loops_never_wait_for_a_handshake : forall listener atts free_at,
  In listener ["http"; "socks"; "quic"]%string ->
  serve (inline_of listener) free_at atts = map (fun a => Some (fst a)) atts.
Proof.
  intros l atts f [<-|[<-|[<-|[]]]]; exact (spawned_handshakes_never_delay atts f).
Qed.
Print Assumptions C14_accept_loops_never_wait_for_a_handshake.

(* what the QUIC listener did before its repair: the handshake was awaited in the accept loop; a single client whose
   handshake never completes (one packet is enough) kept every later client out *)
Theorem C14_inline_handshake_refuted : forall t atts free_at,
  serve true free_at ((t, None) :: atts) = hd None (serve true free_at [(t, None)]) :: map (fun _ => None) atts.
Proof. exact inline_handshake_blocks_everyone. Qed.
Print Assumptions C14_inline_handshake_refuted.
