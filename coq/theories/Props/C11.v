(* Property C11 — UDP frame fragmentation / reassembly is exact under reordering and
   duplication.  This file contains only the property theorems (closed by `exact`) and their
   assumption printouts.  Model: Frag.v (src/common/fragment.rs). *)
From RP Require Import Base Frag FragProofs.

(* Splitting: the fragments of a frame carry (id, total, 0..total-1), are at most one MTU
   long and their payloads concatenate to the frame. *)
Theorem C11_fragments_cover : forall ovf mtu next_id buf,
  4 < mtu -> next_id < 65536 -> (ovf = false \/ next_id < 65535) ->
  let bodies := chunks (N.to_nat (mtu - 4)) buf in
  let c := length bodies in
  (c <= 127)%nat ->
  exists frs,
    make_fragments ovf mtu next_id buf = Ok ((next_id + 1) mod 65536, frs) /\
    length frs = c /\ concat bodies = buf /\
    (forall i, (i < c)%nat -> nth i frs [] = dg next_id (N.of_nat c) bodies i) /\
    (forall f, In f frs -> (length f <= N.to_nat mtu)%nat).
Proof. exact fragments_cover. Qed.
Print Assumptions C11_fragments_cover.

(* Any arrival order, any duplicates: the model equals the seen-set specification. *)
Theorem C11_reassemble_refines_spec :
  forall (T : Type) (from_buffer : bytes -> option T) (ovf : bool) (id n : N) (bodies : list bytes),
  id < 65536 -> 1 <= n -> n <= 127 -> length bodies = N.to_nat n ->
  forall timeout ixs now st seen,
    R id n bodies st seen -> Forall (fun i => (i < N.to_nat n)%nat) ixs ->
    recv_all T from_buffer ovf timeout now st (map (dg id n bodies) ixs) =
    map (fun e : bool => Ok (if e then from_buffer (frame bodies) else None)) (spec_run n seen ixs).
Proof. exact reassemble_refines_spec. Qed.
Print Assumptions C11_reassemble_refines_spec.

(* Headline: fragment with the sender, deliver in any order with any duplicates that do not
   amount to a second complete copy (KnownClass_C11 = two_covers): the frame comes out exactly
   once, everything else yields nothing. *)
Theorem C11_reassemble_any_order_exact :
  forall (T : Type) (from_buffer : bytes -> option T) ovf_rx ovf_tx mtu id buf timeout now st ixs,
  4 < mtu -> id < 65536 -> (ovf_tx = false \/ id < 65535) ->
  let c := length (chunks (N.to_nat (mtu - 4)) buf) in
  (1 <= c <= 127)%nat ->
  alookup id (fs_queue st) = None ->
  Forall (fun i => (i < c)%nat) ixs ->
  covers0 (N.of_nat c) ixs -> ~ two_covers (N.of_nat c) ixs ->
  exists id' frs (pre post : list nat),
    make_fragments ovf_tx mtu id buf = Ok (id', frs) /\
    length ixs = S (length pre + length post) /\
    recv_all T from_buffer ovf_rx timeout now st (map (fun i => nth i frs []) ixs) =
    repeat (Ok None) (length pre) ++ Ok (from_buffer buf) :: repeat (Ok None) (length post).
Proof. exact fragment_reassemble_exact. Qed.
Print Assumptions C11_reassemble_any_order_exact.

(* A permutation (no duplicates) is never in the known class. *)
Theorem C11_permutation_not_known_class : forall n,
  (0 < N.to_nat n)%nat -> forall l, NoDup l -> ~ two_covers n l.
Proof. exact nodup_not_two_covers. Qed.
Print Assumptions C11_permutation_not_known_class.

(* Frames with different ids do not disturb each other, for every interleaving. *)
Theorem C11_interleave_independent :
  forall (T : Type) (from_buffer : bytes -> option T) ovf timeout a dgs now1 now2 st1 st2,
  alookup a (fs_queue st1) = alookup a (fs_queue st2) ->
  select T a dgs (recv_all T from_buffer ovf timeout now1 st1 dgs) =
  recv_all T from_buffer ovf timeout now2 st2 (filter (fun d => get_u16 d =? a) dgs).
Proof. exact interleave_independent. Qed.
Print Assumptions C11_interleave_independent.

(* Malformed or inconsistent fragments produce nothing and change nothing. *)
Theorem C11_garbage_yields_nothing :
  forall (T : Type) (from_buffer : bytes -> option T) ovf now timeout st buf,
  malformed buf = true -> reassemble T from_buffer ovf now timeout st buf = (st, Ok None).
Proof. exact garbage_yields_nothing. Qed.
Print Assumptions C11_garbage_yields_nothing.

Theorem C11_inconsistent_total_yields_nothing :
  forall (T : Type) (from_buffer : bytes -> option T) ovf now timeout st buf q,
  malformed buf = false ->
  negb ((hdr_total buf =? 1) && (hdr_seq buf =? 0)) = true ->
  alookup (get_u16 buf) (fs_queue st) = Some q ->
  N.of_nat (length (rq_frags q)) <> hdr_total buf ->
  reassemble T from_buffer ovf now timeout st buf = (st, Ok None).
Proof. exact inconsistent_total_yields_nothing. Qed.
Print Assumptions C11_inconsistent_total_yields_nothing.

(* Never-completed entries are discarded by the first timer call after their deadline. *)
Theorem C11_timer_discards_all : forall bound now st id q,
  tm_inv bound st -> bound < now -> alookup id (fs_queue (timer now st)) = Some q -> False.
Proof. exact timer_discards_all. Qed.
Print Assumptions C11_timer_discards_all.

Theorem C11_tm_inv_preserved :
  forall (T : Type) (from_buffer : bytes -> option T) ovf now timeout st buf,
  tm_inv (now + timeout) st ->
  tm_inv (now + timeout) (fst (reassemble T from_buffer ovf now timeout st buf)).
Proof. exact reassemble_tm_inv. Qed.
Print Assumptions C11_tm_inv_preserved.

(* No datagram, in any reachable state, panics the reassembler (shared with C05). *)
Theorem C11_frag_run_never_panics :
  forall (T : Type) (from_buffer : bytes -> option T) ovf timeout ops now st,
  wf st -> Forall (fun r => match r with Some o => is_panic o = false | None => True end)
                  (frag_run T from_buffer ovf timeout now st ops).
Proof. exact frag_run_never_panics. Qed.
Print Assumptions C11_frag_run_never_panics.

(* Known finding, stated and witnessed: a second complete copy delivers the frame again. *)
Theorem C11_dup_refuted :
  exists ixs, two_covers 2 ixs /\
    recv_all bytes (fun b => Some b) false 10 0 fs_empty
      (map (dg 7 2 [[1;2];[3]]) ixs)
    = [Ok None; Ok (Some [1;2;3]); Ok None; Ok (Some [1;2;3])].
Proof. exact dup_refuted. Qed.
Print Assumptions C11_dup_refuted.
