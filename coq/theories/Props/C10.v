(* Property C10 — UDP datagram fidelity and session isolation.
   Model: Udp.v (session table of the reverse UDP listener; dispatch of frames by session id) and the codecs of
   C03 (SOCKS5 UDP header, RPFM frame) for payload fidelity. *)
From RP Require Import Base Target Socks Frames C03Proofs Udp UdpProofs.
From RP.Gen Require Gen_udp.

(* every datagram, the first of a session included, is handed on exactly once and in order *)
Theorem C10_every_datagram_handed_once : forall ds, u_handed (accept_all ds) = ds.
Proof. exact every_datagram_handed_once. Qed.
Print Assumptions C10_every_datagram_handed_once.

Theorem C10_session_isolation : forall ds k, of_session k (u_handed (accept_all ds)) = of_session k ds.
Proof. exact session_isolation. Qed.
Print Assumptions C10_session_isolation.

Theorem C10_other_sessions_unaffected : forall ds j p k, k <> j ->
  of_session k (u_handed (accept_all (ds ++ [(j, p)]))) = of_session k (u_handed (accept_all ds)).
Proof. exact other_sessions_unaffected. Qed.
Print Assumptions C10_other_sessions_unaffected.

Theorem C10_one_session_per_client : forall ds, NoDup (u_sessions (accept_all ds)).
Proof. exact one_session_per_client. Qed.
Print Assumptions C10_one_session_per_client.

(* frames carried over a shared hop are delivered by session id only *)
Theorem C10_dispatch_by_id : forall sessions frames k, memN k sessions = true ->
  of_session k (dispatch sessions frames) = of_session k frames.
Proof. exact dispatch_by_id. Qed.
Print Assumptions C10_dispatch_by_id.

Theorem C10_dispatch_never_crosses : forall sessions frames k, memN k sessions = false ->
  of_session k (dispatch sessions frames) = [].
Proof. exact dispatch_never_crosses. Qed.
Print Assumptions C10_dispatch_never_crosses.

(* identical payload and destination label through the SOCKS5 UDP header, for every payload *)
Theorem C10_socksudp_payload_fidelity : forall t body bs,
  target_ok t -> encode_udp (Some t) body = Ok bs -> decode_udp bs = Ok (t, body).
Proof. exact udp_roundtrip. Qed.
Print Assumptions C10_socksudp_payload_fidelity.

Theorem C10_first_datagram_lost_refuted_v0 : exists ds, u_handed (fold_left accept_v0 ds u_init) <> ds.
Proof. exact first_datagram_lost_v0. Qed.
Print Assumptions C10_first_datagram_lost_refuted_v0.

Theorem C10_source_shape :
  Gen_udp.reverse_first_datagram_forwarded = true /\ Gen_udp.reverse_known_session_forwarded = true /\
  Gen_udp.quic_frames_dispatched_by_session_id = true.
Proof. repeat split; reflexivity. Qed.
Print Assumptions C10_source_shape.

Example C10_example :
  of_session 2 (u_handed (accept_all [(1, [10]); (2, [20]); (1, [11]); (2, [21])])) = [[20]; [21]].
Proof. reflexivity. Qed.
