(* Property C10 — UDP datagram fidelity and session isolation.
   Model: Udp.v (session table of the reverse UDP listener; dispatch of frames by session id) and the codecs of
   C03 (SOCKS5 UDP header, RPFM frame) for payload fidelity. *)
From RP Require Import Base Stream StreamProofs Target Socks Frames Frag FragProofs C03Proofs Udp UdpProofs QuicDgram QuicDgramProofs RevSock RevSockProofs.
From RP.Gen Require Gen_udp.

(* every datagram, the first of a session included, is handed on exactly once and in order *)
Theorem C10_every_datagram_handed_once : forall ds, u_handed (accept_all ds) = ds.
Proof. exact every_datagram_handed_once. Qed.
Print Assumptions C10_every_datagram_handed_once.

Theorem C10_session_isolation : forall ds k, of_session k (u_handed (accept_all ds)) = of_session k ds.
Proof. exact session_isolation. Qed.
Print Assumptions C10_session_isolation.

Theorem C10_other_sessions_unaffected : forall ds j p k, k <> j ->
  of_session k (u_handed (accept_all (ds ++ [(j, p)]))) = of_session k (u_handed (accept_all ds)).
Proof. exact other_sessions_unaffected. Qed.
Print Assumptions C10_other_sessions_unaffected.

Theorem C10_one_session_per_client : forall ds, NoDup (u_sessions (accept_all ds)).
Proof. exact one_session_per_client. Qed.
Print Assumptions C10_one_session_per_client.

(* frames carried over a shared hop are delivered by session id only *)
Theorem C10_dispatch_by_id : forall sessions frames k, memN k sessions = true ->
  of_session k (dispatch sessions frames) = of_session k frames.
Proof. exact dispatch_by_id. Qed.
Print Assumptions C10_dispatch_by_id.

Theorem C10_dispatch_never_crosses : forall sessions frames k, memN k sessions = false ->
  of_session k (dispatch sessions frames) = [].
Proof. exact dispatch_never_crosses. Qed.
Print Assumptions C10_dispatch_never_crosses.

(* identical payload and destination label through the SOCKS5 UDP header, for every payload *)
Theorem C10_socksudp_payload_fidelity : forall t body bs,
  target_ok t -> encode_udp (Some t) body = Ok bs -> decode_udp bs = Ok (t, body).
Proof. exact udp_roundtrip. Qed.
Print Assumptions C10_socksudp_payload_fidelity.

Theorem C10_first_datagram_lost_refuted_v0 : exists ds, u_handed (fold_left accept_v0 ds u_init) <> ds.
Proof. exact first_datagram_lost_v0. Qed.
Print Assumptions C10_first_datagram_lost_refuted_v0.

Theorem C10_source_shape :
  Gen_udp.reverse_first_datagram_forwarded = true /\ Gen_udp.reverse_known_session_forwarded = true /\
  Gen_udp.quic_frames_dispatched_by_session_id = true /\
  Gen_udp.quic_fragment_ids_shared_by_all_writers = true /\ Gen_udp.quic_one_reassembly_table_per_connection = true /\
  Gen_udp.quic_demux_never_waits_for_a_session = true /\ (1 <= Gen_udp.quic_session_queue_capacity)%nat /\
  Gen_udp.session_reader_ignores_other_sources = true.
Proof. repeat split; try reflexivity. vm_compute. repeat constructor. Qed.
Print Assumptions C10_source_shape.

(* ---- UDP carried as QUIC datagrams: payloads larger than one QUIC packet, any number of sessions on one connection --- *)

(* Any number of sessions write any encodable frames (1..127 fragments each at the reported datagram size) into one
   connection, fragment ids taken the way the source takes them (Gen_udp: one counter for all writers); the connection
   delivers every datagram once, in ANY order and interleaving (`sched`).  Then, for every write, the outputs of the
   peer's single reassembly table at the positions of that write's datagrams are: nothing, ..., the frame with the
   writer's session id, address and payload unchanged - once -, nothing, ...: exactly one datagram with identical
   payload, labelled with its own session, whatever the other sessions send at the same time. *)
Theorem C10_quic_datagram_hop_exact :
  forall ovf_tx ovf_rx mtu timeout now start (ws : list wr) sent sched,
  len ws <= 65536 ->
  Forall (fun w => frame_ok (stamp (fst w) (snd w))) ws ->
  send_all ovf_tx mtu (ids_of Gen_udp.quic_fragment_ids_shared_by_all_writers start ws) ws = Ok sent ->
  Forall (fun frs => (1 <= length frs <= 127)%nat) sent ->
  complete sent sched ->
  forall k, (k < length ws)%nat ->
    let w := nth k ws wr0 in
    exists pre post : list nat,
      (length pre + length post + 1 = length (nth k sent []))%nat /\
      select Frames.frame (nth k (ids_of Gen_udp.quic_fragment_ids_shared_by_all_writers start ws) 0) (wire_of sent sched)
             (recv_wire ovf_rx timeout now fs_empty (wire_of sent sched)) =
      repeat (Ok None) (length pre) ++ Ok (Some (stamp (fst w) (snd w))) :: repeat (Ok None) (length post).
Proof. exact dgram_hop_exact. Qed.
Print Assumptions C10_quic_datagram_hop_exact.

(* the ids of up to 65536 writes in flight are pairwise different, so no two frames share an entry of the table *)
Theorem C10_shared_fragment_ids_distinct : forall start ws,
  len ws <= 65536 -> NoDup (ids_of Gen_udp.quic_fragment_ids_shared_by_all_writers start ws).
Proof. exact shared_ids_distinct. Qed.
Print Assumptions C10_shared_fragment_ids_distinct.

(* what fix c86bb78 repaired: with one counter per writer two sessions that send at the same time are mixed - session 1
   is handed a datagram that ends in session 2's bytes, session 2 is handed nothing *)
Theorem C10_per_writer_fragment_ids_refuted :
  exists ws sent sched,
    ids_of false 0 ws = [0; 0] /\
    send_all false 20 (ids_of false 0 ws) ws = Ok sent /\ complete sent sched /\
    let outs := recv_wire false 5000 0 fs_empty (wire_of sent sched) in
    handed_to 1 outs = [mk_frame None 1 [1; 2; 3; 4; 105; 106; 107; 108; 109; 110]] /\
    handed_to 2 outs = [].
Proof. exact per_writer_ids_mix. Qed.
Print Assumptions C10_per_writer_fragment_ids_refuted.

Example C10_example :
  of_session 2 (u_handed (accept_all [(1, [10]); (2, [20]); (1, [11]); (2, [21])])) = [[20]; [21]].
Proof. reflexivity. Qed.


(* ---- one loop serves every session of a connection: a session that does not keep up must not hold up the others ---- *)

(* For every sequence of arrivals (Deliver) and of relay tasks taking frames at their own pace (Take), every queue capacity
   and every registered set of sessions: what session b is handed is what it would be handed if nothing at all arrived for
   the other sessions and none of them ever took a frame.  The demultiplexer is the one the source has (Gen_udp: try_send). *)
Theorem C10_demux_isolation : forall cap b ops q1 q2,
  own q1 -> own q2 -> alookup b q1 = alookup b q2 ->
  filter (fun f => f_sid f =? b) (drun (negb Gen_udp.quic_demux_never_waits_for_a_session) cap q1 ops) =
  filter (fun f => f_sid f =? b) (drun (negb Gen_udp.quic_demux_never_waits_for_a_session) cap q2 (filter (concerns b) ops)).
Proof. exact demux_isolation. Qed.
Print Assumptions C10_demux_isolation.

(* what fix 6fd5f9f repaired: with send().await a session that never takes a frame starves a neighbour whose queue is
   empty and whose relay is ready *)
Theorem C10_waiting_demux_refuted :
  let fr sid := mk_frame None sid [7] in
  let ops := [Deliver (fr 1); Deliver (fr 1); Deliver (fr 1); Deliver (fr 2); Take 2; Deliver (fr 2); Take 2] in
  drun true 2 [(1, []); (2, [])] ops = [] /\
  drun false 2 [(1, []); (2, [])] ops = [fr 2; fr 2].
Proof. exact waiting_demux_starves_neighbours. Qed.
Print Assumptions C10_waiting_demux_refuted.

(* ---- UDP frames inline on a stream (UDP over an HTTP hop, QUIC inline mode) ------------------------------------ *)
(* Any list of encodable frames written one after the other, ANY segmentation of the byte stream: the reader delivers
   exactly those frames - session id, address, payload unchanged -, each once, in order, and then a clean end of stream. *)
Theorem C10_inline_stream_exact : forall fs bs cs,
  Forall frame_ok fs -> encode_all fs = Ok bs -> wf_chunks cs -> concat cs = bs ->
  sfr_all (S (length fs)) [] cs = (fs, Ok tt).
Proof. exact inline_stream_exact. Qed.
Print Assumptions C10_inline_stream_exact.

Example C10_inline_example :
  let f1 := mk_frame (Some (TV4 2130706433 53)) 7 [1; 2; 3] in
  let f2 := mk_frame None 7 [] in
  exists bs, encode_all [f1; f2] = Ok bs /\ sfr_all 3 [] [firstn 5 bs; skipn 5 bs] = ([f1; f2], Ok tt).
Proof. eexists. split; [vm_compute; reflexivity|vm_compute; reflexivity]. Qed.

(* ---- the sockets of the reverse UDP listener: a session socket shares the listener's address and is bound before it is
        connected, so the kernel may queue another new client's datagram on it ---------------------------------------- *)

(* Isolation, for every sequence of arrivals, accepts, connects and reads (any number of clients starting at any moments):
   a session forwards upstream only datagrams of its own client.  The reader is the one the source has (Gen_udp). *)
Theorem C10_session_forwards_only_its_client : forall evs,
  Forall (fun h => snd (fst h) = fst (fst h)) (r_handed (rrun Gen_udp.session_reader_ignores_other_sources evs)).
Proof. exact session_forwards_only_its_client. Qed.
Print Assumptions C10_session_forwards_only_its_client.

(* what fix b14e8ad repaired: the reader forwarded whatever its socket held *)
Theorem C10_unfiltered_reader_refuted :
  let evs := [Arrive 1 [10]; AcceptBind; Arrive 2 [20]; AcceptConnect 1; ReadStep 1] in
  In (1, 2, [20]) (r_handed (rrun false evs)) /\ r_handed (rrun true evs) = [(1, 1, [10])].
Proof. exact unfiltered_reader_crosses_sessions. Qed.
Print Assumptions C10_unfiltered_reader_refuted.

(* Delivery, outside the class of the known finding C10-simultaneous-start-first-datagrams-lost (some datagram arrived while
   another client's session socket was bound and not yet connected): no reader ever ignores a datagram - everything that arrived
   is handed on or still queued. *)
Theorem C10_nothing_ignored_outside_the_window_class : forall evs,
  ~ KnownClass_C10_window evs -> r_dropped (rrun true evs) = [].
Proof. exact nothing_ignored_outside_the_window_class. Qed.
Print Assumptions C10_nothing_ignored_outside_the_window_class.

(* the known finding, witnessed: inside the class a datagram is lost *)
Theorem C10_window_class_refuted :
  let evs := [Arrive 1 [10]; AcceptBind; Arrive 2 [20]; AcceptConnect 1; ReadStep 1; AcceptBind; ReadStep 2] in
  KnownClass_C10_window evs /\ r_dropped (rrun true evs) = [(2, [20])] /\ ~ In [20] (map snd (r_handed (rrun true evs))).
Proof. exact window_class_loses_a_datagram. Qed.
Print Assumptions C10_window_class_refuted.
