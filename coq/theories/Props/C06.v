(* Property C06 — the client is told "established" iff the upstream path is, and only after; every other
   outcome gets exactly one complete failure reply in the client's protocol; never both.
   Model: Callbacks.v (ConnectCallback of src/common/h11c.rs, Callback of src/listeners/socks.rs) over the event
   sequences of Dispatch.process_request (src/main.rs).  TCP tunnels; see DESIGN.md for UDP associations. *)
From RP Require Import Base Stream Target Socks Http MiluSyntax MiluEval Dispatch Callbacks CallbacksProofs.
From Coq Require Import String.
From RP.Gen Require Gen_callbacks.

(* every run of process_request produces one of the four event shapes *)
Theorem C06_events_valid : forall regex_match cidr_match_text fuel rq rs conns feature payload t,
  process_request regex_match cidr_match_text fuel rq rs conns feature payload = Ok t ->
  valid_events (t_events t).
Proof. exact dispatch_events_valid. Qed.
Print Assumptions C06_events_valid.

(* exactly one reply, and it is the success reply iff on_connect happened; for every listener protocol and
   every kind of session (TCP tunnel, HTTP UDP channel, SOCKS5 UDP association) *)
Theorem C06_exactly_one_reply : forall p k tgt msg evs,
  valid_events evs ->
  replies_k p k tgt msg evs false = [if established evs then success_reply p tgt else failure_reply p msg].
Proof. exact exactly_one_reply_k. Qed.
Print Assumptions C06_exactly_one_reply.

Theorem C06_reply_iff_established : forall p k tgt msg evs,
  valid_events evs ->
  (In (success_reply p tgt) (replies_k p k tgt msg evs false) /\ success_reply p tgt <> failure_reply p msg
   -> established evs = true) /\
  (established evs = true -> replies_k p k tgt msg evs false = [success_reply p tgt]).
Proof. exact reply_iff_established_k. Qed.
Print Assumptions C06_reply_iff_established.

Theorem C06_success_differs_from_failure : forall p tgt msg, success_reply p tgt <> failure_reply p msg.
Proof. exact success_differs_from_failure. Qed.
Print Assumptions C06_success_differs_from_failure.

(* tie to the source, regenerated on every run: the shape of process_request and of the callbacks that the
   model's event sequences and silenced_after_success stand for *)
Theorem C06_source_shape :
  Gen_callbacks.pr_on_connect_calls = 1%N /\ Gen_callbacks.pr_connect_error_returns = true /\
  Gen_callbacks.pr_on_connect_after_connect = true /\ Gen_callbacks.pr_errors_before_connect_return = true /\
  Gen_callbacks.http_on_error_checks_stream = true /\ Gen_callbacks.http_udp_on_connect_takes_stream = true /\
  Gen_callbacks.socks_on_connect_sets_replied = true /\ Gen_callbacks.socks_on_error_checks_replied = true /\
  Gen_callbacks.socks_on_error_checks_stream = true /\ Gen_callbacks.copy_bidi_takes_streams_first = true /\
  Gen_callbacks.http_body_written_and_flushed = true /\ Gen_callbacks.http_head_flushed = true /\
  Gen_callbacks.http_content_length_is_body_len = true.
Proof. repeat split; reflexivity. Qed.
Print Assumptions C06_source_shape.

(* "only after": on_connect is preceded by the connector's successful connect *)
Theorem C06_success_only_after_connect : forall evs,
  valid_events evs -> established evs = true -> exists c r, evs = EvConnect c :: EvOnConnect :: r.
Proof. exact success_only_after_connect. Qed.
Print Assumptions C06_success_only_after_connect.

(* the failure replies are complete and parse with the protocol's own reader, leaving nothing behind *)
Theorem C06_socks5_failure_wellformed : forall rest,
  run_whole read_response (failure_reply PSocks5 [] ++ rest) = (ROk (mk_sresp 5 1 (TV4 0 0)), rest, []).
Proof. exact socks5_failure_wellformed. Qed.
Print Assumptions C06_socks5_failure_wellformed.

Theorem C06_socks4_failure_wellformed : forall rest,
  run_whole read_response (failure_reply PSocks4 [] ++ rest) = (ROk (mk_sresp 4 91 (TV4 0 0)), rest, []).
Proof. exact socks4_failure_wellformed. Qed.
Print Assumptions C06_socks4_failure_wellformed.

Theorem C06_socks4_success_is_90 : forall tgt b,
  write_response (mk_sresp 4 0 tgt) = Ok b -> nth 1 b 0 = 90.
Proof. exact socks_success_codes. Qed.
Print Assumptions C06_socks4_success_is_90.

(* HTTP: for every body, the 503 parses as a response whose Content-Length header is the decimal length of
   exactly the bytes that follow the head *)
Theorem C06_http_failure_parses : forall msg rest fuel,
  (3 <= fuel)%nat ->
  run_whole (read_http_response fuel) (failure_reply PHttp msg ++ rest) = (ROk (failure_resp msg), msg ++ rest, []).
Proof. exact http_failure_parses. Qed.
Print Assumptions C06_http_failure_parses.

Example C06_example :
  client_bytes PSocks5 (TV4 2130706433 80) [] 2 = [5; 0; 0; 1; 127; 0; 0; 1; 0; 80] /\
  client_bytes PSocks4 (TV4 2130706433 80) [] 1 = [0; 91; 0; 0; 0; 0; 0; 0] /\
  valid_events (events_of_class 3).
Proof. split; [vm_compute; reflexivity|]. split; [vm_compute; reflexivity|]. constructor. Qed.
