(* Property C13 — idle tunnels are closed after the configured timeout, and only then.
   Model: Idle.v (ContextStatistics::is_timeout, the ticker branch of copy_bidi, the start-up block of main). *)
From RP Require Import Base Idle IdleProofs.
From RP.Gen Require Gen_startup.

(* never closed for idleness while either direction has carried data within the period, whatever the wall
   clock does (last activity may even lie in the future of `now`) *)
Theorem C13_never_closed_while_active : forall P lc ls now,
  idle_close P lc ls now = true -> P <> 0 /\ P * 1000 < now - lc /\ P * 1000 < now - ls.
Proof. exact never_closed_while_active. Qed.
Print Assumptions C13_never_closed_while_active.

Theorem C13_active_is_not_closed : forall P lc ls now,
  now - lc <= P * 1000 \/ now - ls <= P * 1000 -> idle_close P lc ls now = false.
Proof. exact active_is_not_closed. Qed.
Print Assumptions C13_active_is_not_closed.

Theorem C13_zero_disables : forall lc ls ticks, closed_at 0 lc ls ticks = None.
Proof. exact zero_disables. Qed.
Print Assumptions C13_zero_disables.

(* closed within the period plus the tick granularity, for every tick sequence with gaps of at most G ms *)
Theorem C13_closes_within : forall P lc ls G, P <> 0 -> forall ticks t0,
  N.max lc ls <= t0 -> t0 <= N.max lc ls + P * 1000 -> gaps_le G t0 ticks ->
  (exists t, In t ticks /\ N.max lc ls + P * 1000 < t) ->
  exists t, closed_at P lc ls ticks = Some t /\ N.max lc ls + P * 1000 < t /\ t <= N.max lc ls + P * 1000 + G.
Proof. exact closes_within. Qed.
Print Assumptions C13_closes_within.

Theorem C13_not_closed_early : forall P lc ls ticks t, closed_at P lc ls ticks = Some t ->
  P <> 0 /\ N.max lc ls + P * 1000 < t.
Proof. exact not_closed_early. Qed.
Print Assumptions C13_not_closed_early.

Theorem C13_configured_period_is_used : forall v, tcp_period (Some v) = v /\ udp_period (Some v) = v.
Proof. exact configured_period_is_used. Qed.
Print Assumptions C13_configured_period_is_used.

Theorem C13_default_period : tcp_period None = 600 /\ udp_period None = 600.
Proof. exact default_period. Qed.
Print Assumptions C13_default_period.

(* every listener kind that accepts UDP associations gives them timeouts.udp - and not timeouts.idle, whatever that is *)
Theorem C13_udp_associations_take_the_udp_period : forall k idle udp,
  udp_assoc_period k idle udp = udp_period udp.
Proof. intros [] idle udp; reflexivity. Qed.
Print Assumptions C13_udp_associations_take_the_udp_period.

Theorem C13_source_shape :
  Gen_startup.default_timeout_reads_configured_value = true /\ Gen_startup.config_default_period_s = DEFAULT_PERIOD /\
  Gen_startup.zero_period_disables = true /\ Gen_startup.comparison_is_strict_in_ms = true /\
  Gen_startup.elapsed_saturates = true /\ Gen_startup.close_needs_both_directions_idle = true /\
  Gen_startup.ticker_period_s = 1 /\ Gen_startup.set_idle_timeout_assigns_unconditionally = true /\
  Gen_startup.udp_sessions_take_the_udp_timeout = 3 /\ Gen_startup.connect_udp_sessions_take_the_udp_timeout = true.
Proof. repeat split; reflexivity. Qed.
Print Assumptions C13_source_shape.

Example C13_example :
  closed_at 2 1000 1500 [2000; 3000; 3500; 4000; 5000] = Some 4000 /\ gaps_le 1000 1500 [2000; 3000; 3500; 4000; 5000].
Proof. exact idle_example. Qed.
