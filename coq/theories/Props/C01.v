(* Property C01 — TCP tunnel byte-stream fidelity.
   Model: Relay.v (copy_half / copy_bidi / drain_buffers of src/copy.rs) on top of Stream.v (the reader programs
   in which every listener's handshake decoder is written).  The environment (kernel, tokio, TLS and QUIC
   libraries) is an oracle choosing the size of every read and of every splice; the theorems quantify over it. *)
From RP Require Import Base Stream StreamProofs Relay RelayProofs.
From RP.Gen Require Gen_relay.
Local Open Scope nat_scope.

(* in order, exactly once, unmodified: at every moment the destination holds a prefix of the source *)
Theorem C01_delivered_is_prefix : forall m bufsz input os, 0 < bufsz ->
  exists rest, input = h_out (hrun m bufsz (h_init input) os) ++ rest.
Proof. exact delivered_is_prefix. Qed.
Print Assumptions C01_delivered_is_prefix.

(* every byte arrives: any run that is given enough steps ends with the whole input delivered, in both modes,
   for every buffer size and every choice of read / splice sizes *)
Theorem C01_everything_is_delivered : forall m bufsz input os, 0 < bufsz -> 2 * length input + 1 <= length os ->
  let s := hrun m bufsz (h_init input) os in
  h_phase s = PDone /\ h_out s = input /\ h_fin s = true.
Proof. exact half_delivers_everything. Qed.
Print Assumptions C01_everything_is_delivered.

(* any number of concurrent tunnels under any interleaving: no byte of one connection appears in another *)
Theorem C01_no_crosstalk : forall m bufsz inputs sc i t inp, 0 < bufsz ->
  nth_error (wrun m bufsz (map (fun io => t_init (fst io) (snd io)) inputs) sc) i = Some t ->
  nth_error inputs i = Some inp ->
  (exists r, fst inp = h_out (t_c2s t) ++ r) /\ (exists r, snd inp = h_out (t_s2c t) ++ r) /\
  (h_fin (t_c2s t) = true -> h_out (t_c2s t) = fst inp) /\ (h_fin (t_s2c t) = true -> h_out (t_s2c t) = snd inp).
Proof. exact no_crosstalk. Qed.
Print Assumptions C01_no_crosstalk.

(* no handshake byte enters the tunnel and no pipelined byte is lost, for every handshake decoder and every
   segmentation of the client's bytes *)
Theorem C01_tunnel_starts_behind_handshake : forall (A : Type) (p : rp A) (segs : list bytes), wf_chunks segs ->
  let '(r1, s1, _) := run_chunked p ([], segs) in
  let '(r2, rest, _) := run_whole p (concat segs) in
  r1 = r2 /\ tunnel_input s1 = rest.
Proof. exact @tunnel_starts_behind_handshake. Qed.
Print Assumptions C01_tunnel_starts_behind_handshake.

Theorem C01_origin_receives_exactly_the_payload : forall (A : Type) (p : rp A) (segs : list bytes) m bufsz os,
  wf_chunks segs -> 0 < bufsz ->
  let '(_, s1, _) := run_chunked p ([], segs) in
  let '(_, rest, _) := run_whole p (concat segs) in
  2 * length rest + 1 <= length os ->
  h_out (hrun m bufsz (h_init (tunnel_input s1)) os) = rest.
Proof. exact @origin_receives_exactly_the_payload. Qed.
Print Assumptions C01_origin_receives_exactly_the_payload.

(* the loop as it was before fix dd0dab2 does lose the tail of a stream: the statement is not vacuous *)
Theorem C01_single_splice_out_refuted : exists input bufsz os,
  let s := fold_left (hstep_v0 bufsz) os (h_init input) in
  h_phase s = PDone /\ h_out s <> input /\ h_fin s = false.
Proof. exact splice_v0_loses_tail. Qed.
Print Assumptions C01_single_splice_out_refuted.

(* tie to the source, regenerated on every run *)
Theorem C01_source_shape :
  Gen_relay.buffered_read_writeall_flush_break = true /\ Gen_relay.splice_writes_until_pending_zero = true /\
  Gen_relay.splice_breaks_on_zero_read = true /\ Gen_relay.splice_write_call_sites = 1%N /\
  Gen_relay.read_ahead_drained_both_ways_before_unwrap = true /\ Gen_relay.bidi_runs_two_halves_until_both_done = true.
Proof. repeat split; reflexivity. Qed.
Print Assumptions C01_source_shape.

Example C01_example :
  let s := hrun Splice 4 (h_init [1; 2; 3; 4; 5; 6; 7]%N) [9; 1; 1; 5; 2; 2; 7; 1; 3; 3; 3; 3; 3; 3; 3] in
  h_out s = [1; 2; 3; 4; 5; 6; 7]%N /\ h_fin s = true.
Proof. exact relay_example. Qed.
