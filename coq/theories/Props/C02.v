(* Property C02 — routing: first matching rule wins, default deny, nothing leaks on deny;
   cidr_match is standard CIDR containment.  Models: Dispatch.v (process_request, set_rules,
   Rule::evaluate) on top of the milu evaluator MiluEval.v. *)
From RP Require Import Base Target MiluSyntax MiluParser MiluDoc MiluEval Dispatch DispatchProofs.
From Coq Require Import ZArith String.

Theorem C02_first_match_wins :
  forall regex_match cidr_match_text fuel rq rs r,
  first_match regex_match cidr_match_text fuel rq rs = Ok (Some r) <->
  exists pre post, rs = pre ++ r :: post /\ rule_matches regex_match cidr_match_text fuel rq r = Ok true /\
                   Forall (fun r' => rule_matches regex_match cidr_match_text fuel rq r' = Ok false) pre.
Proof. exact first_match_wins. Qed.
Print Assumptions C02_first_match_wins.

Theorem C02_default_deny :
  forall regex_match cidr_match_text fuel rq rs,
  first_match regex_match cidr_match_text fuel rq rs = Ok None <->
  Forall (fun r' => rule_matches regex_match cidr_match_text fuel rq r' = Ok false) rs.
Proof. exact default_deny. Qed.
Print Assumptions C02_default_deny.

Theorem C02_filterless_rule_matches_everything :
  forall regex_match cidr_match_text fuel rq r,
  r_filter r = None -> rule_matches regex_match cidr_match_text fuel rq r = Ok true.
Proof. exact filterless_matches. Qed.
Print Assumptions C02_filterless_rule_matches_everything.

Theorem C02_failing_filter_does_not_match :
  forall regex_match cidr_match_text fuel rq r e c,
  r_filter r = Some e -> real_value_of regex_match cidr_match_text rq fuel [] e = Err c ->
  rule_matches regex_match cidr_match_text fuel rq r = Ok false.
Proof. exact failing_filter_no_match. Qed.
Print Assumptions C02_failing_filter_does_not_match.

Theorem C02_connect_only_first_match :
  forall regex_match cidr_match_text fuel rq rs conns feature payload t c,
  process_request regex_match cidr_match_text fuel rq rs conns feature payload = Ok t ->
  In (EvConnect c) (t_events t) ->
  exists r conn, first_match regex_match cidr_match_text fuel rq rs = Ok (Some r) /\
    bytes_eq (r_target r) DENY = false /\ find_conn (r_target r) conns = Some conn /\ c = c_name conn /\
    existsb (N.eqb feature) (c_feats conn) = true.
Proof. exact connect_only_first_match. Qed.
Print Assumptions C02_connect_only_first_match.

Theorem C02_deny_no_effects :
  forall regex_match cidr_match_text fuel rq rs conns feature payload t,
  process_request regex_match cidr_match_text fuel rq rs conns feature payload = Ok t ->
  (forall c, ~ In (EvConnect c) (t_events t)) ->
  t_events t = [EvOnError] /\ t_forwarded t = [] /\ t_connector t = None /\ t_error t = true.
Proof. exact deny_no_effects. Qed.
Print Assumptions C02_deny_no_effects.

Theorem C02_forwarded_only_when_established :
  forall regex_match cidr_match_text fuel rq rs conns feature payload t,
  process_request regex_match cidr_match_text fuel rq rs conns feature payload = Ok t -> t_forwarded t <> [] ->
  In EvOnConnect (t_events t) /\ t_forwarded t = payload /\ t_error t = false.
Proof. exact forwarded_only_when_established. Qed.
Print Assumptions C02_forwarded_only_when_established.

(* for every address width (32, 128, ...) and every prefix length *)
Theorem C02_cidr_is_range : forall w len net a,
  len <= w -> net mod 2 ^ (w - len) = 0 ->
  (cidr_contains w len net a = true <-> net <= a /\ a < net + 2 ^ (w - len)).
Proof. exact cidr_is_range. Qed.
Print Assumptions C02_cidr_is_range.
