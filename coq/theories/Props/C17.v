(* Property C17 — load-balancer selection laws.  Model: Lb.v (src/connectors/loadbalance.rs). *)
From RP Require Import Base Lb LbProofs Config LbRecord.
From Coq Require Import Permutation String.
From RP.Gen Require Gen_lb.

Theorem C17_only_members : forall (A : Type) (members : list A) ticket m,
  member_at members ticket = Some m -> In m members.
Proof. exact @only_members. Qed.
Print Assumptions C17_only_members.

Theorem C17_selection_total : forall (A : Type) (members : list A) ticket,
  members <> [] -> exists m, member_at members ticket = Some m.
Proof. exact @member_at_total. Qed.
Print Assumptions C17_selection_total.

(* any k*n consecutive tickets, whatever the counter value they start from *)
Theorem C17_rr_fair_any_window : forall n j, (0 < n)%nat -> (j < n)%nat -> forall k s,
  count_pos n j (seq s (k * n)) = k.
Proof. exact rr_fair_any_window. Qed.
Print Assumptions C17_rr_fair_any_window.

(* any interleaving of the atomic fetch_adds of any number of tasks *)
Theorem C17_rr_fair_concurrent : forall (Task : Type) n j k (sched : list Task) c collected,
  (0 < n)%nat -> (j < n)%nat -> List.length sched = (k * n)%nat ->
  Permutation collected (map snd (tickets_of_schedule sched c)) ->
  count_pos n j collected = k.
Proof. exact @rr_fair_concurrent. Qed.
Print Assumptions C17_rr_fair_concurrent.

Theorem C17_hash_sticky : forall (A K : Type) (hash : K -> nat) (members : list A) k1 k2,
  k1 = k2 -> member_at members (hash k1) = member_at members (hash k2).
Proof. exact @hash_sticky. Qed.
Print Assumptions C17_hash_sticky.

Theorem C17_random_possible : forall (A : Type) (members : list A) i m,
  nth_error members i = Some m -> member_at members i = Some m.
Proof. exact @random_possible. Qed.
Print Assumptions C17_random_possible.

(* tie to the source (regenerated on every run): round_robin touches the shared counter through exactly one
   atomic fetch_add(1) and nothing else in the file touches it, which is what tickets_of_schedule models; the
   member is connectors[ticket mod len] (member_at); hash_by indexes with hash mod len. *)
Theorem C17_source_shape :
  Gen_lb.rr_counter_ops = ["fetch_add"%string] /\ Gen_lb.rr_counter_other_mentions = 0%N /\
  Gen_lb.rr_counter_mentions_in_file = 1%N /\ Gen_lb.rr_step_is_one = true /\
  Gen_lb.rr_index_is_ticket_mod_len = true /\ Gen_lb.hash_index_is_hash_mod_len = true.
Proof. exact (conj eq_refl (conj eq_refl (conj eq_refl (conj eq_refl (conj eq_refl eq_refl))))). Qed.
Print Assumptions C17_source_shape.

(* the member actually used is the one recorded: for every connector table, every request, every sequence of selections and
   any depth of nesting, the record that stays on the connection names the connector that opened it.  The order of the two
   statements in LoadBalanceConnector::connect is read from the source. *)
Theorem C17_recorded_is_used : forall fuel t n choices leaf,
  resolve fuel t n choices = Leaf leaf -> recorded Gen_lb.lb_records_member_before_delegating fuel t n choices = leaf.
Proof. exact recorded_is_used. Qed.
Print Assumptions C17_recorded_is_used.

Theorem C17_record_after_connect_refuted :
  let t := [(0, KPlain); (1, KLb [2]); (2, KLb [0])]%N in
  table_ok t = true /\ resolve 4 t 1%N [] = Leaf 0%N /\ recorded false 4 t 1%N [] = 2%N /\ recorded true 4 t 1%N [] = 0%N.
Proof. exact record_after_connect_refuted. Qed.
Print Assumptions C17_record_after_connect_refuted.

Example C17_example : count_pos 3 1 (seq 1000 12) = 4%nat /\ member_at [10; 20; 30] 1001 = Some 30.
Proof. split; vm_compute; reflexivity. Qed.
