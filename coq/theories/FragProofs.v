(* Proofs about the fragmentation model (Frag.v). *)
From RP Require Import Base Frag.

(* ------------------------------------------------------------------------------------- *)
(* association lists                                                                      *)

Lemma alookup_aremove_same {V} k (m : list (N * V)) : alookup k (aremove k m) = None.
Proof.
  induction m as [|[k' v] m IH]; cbn [aremove alookup]; [reflexivity|].
  destruct (N.eqb_spec k k') as [->|Hne]; [exact IH|].
  cbn [alookup]. destruct (N.eqb_spec k k'); [contradiction|exact IH].
Qed.

Lemma alookup_aremove_other {V} k k2 (m : list (N * V)) :
  k2 <> k -> alookup k2 (aremove k m) = alookup k2 m.
Proof.
  intros Hne. induction m as [|[k' v] m IH]; cbn [aremove alookup]; [reflexivity|].
  destruct (N.eqb_spec k k') as [->|Hne2].
  - destruct (N.eqb_spec k2 k'); [contradiction|exact IH].
  - cbn [alookup]. destruct (N.eqb_spec k2 k'); [reflexivity|exact IH].
Qed.

Lemma alookup_ainsert_same {V} k (v : V) m : alookup k (ainsert k v m) = Some v.
Proof. unfold ainsert; cbn [alookup]. rewrite N.eqb_refl. reflexivity. Qed.

Lemma alookup_ainsert_other {V} k k2 (v : V) m :
  k2 <> k -> alookup k2 (ainsert k v m) = alookup k2 m.
Proof.
  intros Hne. unfold ainsert; cbn [alookup].
  destruct (N.eqb_spec k2 k); [contradiction|]. apply alookup_aremove_other; assumption.
Qed.

Lemma alookup_aremove_some {V} k k2 (m : list (N * V)) v :
  alookup k2 (aremove k m) = Some v -> alookup k2 m = Some v.
Proof.
  destruct (N.eq_dec k2 k) as [->|Hne].
  - rewrite alookup_aremove_same. discriminate.
  - rewrite alookup_aremove_other by assumption. auto.
Qed.

(* ------------------------------------------------------------------------------------- *)
(* set_nth                                                                                *)

Lemma set_nth_length {A} (l : list A) i x : length (set_nth l i x) = length l.
Proof.
  revert i; induction l as [|h t IH]; intros [|i]; cbn [set_nth length]; auto.
Qed.

Lemma nth_set_nth_same {A} (l : list A) i x d :
  (i < length l)%nat -> nth i (set_nth l i x) d = x.
Proof.
  revert i; induction l as [|h t IH]; intros [|i] Hi; cbn [set_nth length nth] in *;
    try lia; auto. apply IH. lia.
Qed.

Lemma nth_set_nth_other {A} (l : list A) i j x d :
  i <> j -> nth j (set_nth l i x) d = nth j l d.
Proof.
  revert i j; induction l as [|h t IH]; intros [|i] [|j] Hne; cbn [set_nth nth];
    try reflexivity; try congruence. apply IH. congruence.
Qed.

(* ------------------------------------------------------------------------------------- *)
(* chunks                                                                                 *)

Lemma concat_chunks_fuel fuel size b :
  (0 < size)%nat -> (length b <= fuel)%nat -> concat (chunks_fuel fuel size b) = b.
Proof.
  intros Hs. revert b. induction fuel as [|f IH]; intros b Hb.
  - destruct b; [reflexivity|cbn in Hb; lia].
  - cbn [chunks_fuel]. destruct b as [|x b']; [reflexivity|].
    cbn [concat]. rewrite IH.
    + apply firstn_skipn.
    + rewrite skipn_length. cbn [length] in *. lia.
Qed.

Lemma concat_chunks size b : (0 < size)%nat -> concat (chunks size b) = b.
Proof. intros; apply concat_chunks_fuel; auto. Qed.

Lemma chunks_fuel_bound fuel size b c :
  In c (chunks_fuel fuel size b) -> (length c <= size)%nat.
Proof.
  revert b. induction fuel as [|f IH]; intros b Hin; [contradiction|].
  cbn [chunks_fuel] in Hin. destruct b as [|x b']; [contradiction|].
  destruct Hin as [<-|Hin]; [apply firstn_le_length|eauto].
Qed.

Lemma ceil_step a size : (0 < size)%nat -> (size <= a)%nat ->
  ((a + size - 1) / size = S ((a - size + size - 1) / size))%nat.
Proof.
  intros Hs Ha.
  replace (a + size - 1)%nat with ((a - size + size - 1) + 1 * size)%nat by lia.
  rewrite Nat.div_add by lia. lia.
Qed.

Lemma chunks_fuel_length fuel size b :
  (0 < size)%nat -> (length b <= fuel)%nat ->
  length (chunks_fuel fuel size b) = ((length b + size - 1) / size)%nat.
Proof.
  intros Hs. revert b. induction fuel as [|f IH]; intros b Hb.
  - destruct b; cbn in *; [|lia]. symmetry. apply Nat.div_small. lia.
  - cbn [chunks_fuel]. destruct b as [|x b'].
    + cbn. symmetry. apply Nat.div_small. lia.
    + cbn [length]. rewrite IH by (rewrite skipn_length; cbn [length] in *; lia).
      rewrite skipn_length. set (a := length (x :: b')). change (S (length b')) with a.
      destruct (Nat.le_gt_cases size a) as [Hge|Hlt].
      * rewrite (ceil_step a size) by assumption. reflexivity.
      * replace (a - size)%nat with 0%nat by lia. cbn [Nat.add].
        rewrite (Nat.div_small (size - 1) size) by lia.
        assert (Ha : (0 < a)%nat) by (subst a; cbn; lia).
        cbn [Nat.add]. apply (Nat.div_unique _ _ 1 (a - 1)); lia.
Qed.

Lemma div_ceil_nat a size : (0 < size)%nat ->
  div_ceil (N.of_nat a) (N.of_nat size) = N.of_nat ((a + size - 1) / size).
Proof.
  intros Hs. unfold div_ceil.
  pose proof (Nat.div_mod_eq a size) as Hdm.
  pose proof (Nat.mod_upper_bound a size ltac:(lia)) as Hub.
  rewrite <- Nat2N.inj_mod, <- Nat2N.inj_div.
  destruct (Nat.eq_dec (a mod size) 0) as [Hz|Hnz].
  - rewrite Hz. cbn [N.of_nat N.ltb N.compare andb].
    f_equal. apply (Nat.div_unique _ _ _ (size - 1)); lia.
  - assert (H1 : (0 <? N.of_nat (a mod size)) = true) by (apply N.ltb_lt; lia).
    assert (H2 : (0 <? N.of_nat size) = true) by (apply N.ltb_lt; lia).
    rewrite H1, H2. cbn [andb].
    replace (N.of_nat (a / size) + 1) with (N.of_nat (S (a / size))) by lia.
    f_equal. apply (Nat.div_unique _ _ _ (a mod size - 1)); lia.
Qed.

(* ------------------------------------------------------------------------------------- *)
(* the u128 bitmap                                                                        *)

Lemma testbit_one_shift s i : N.testbit (N.shiftl 1 s) i = (i =? s).
Proof.
  destruct (N.eqb_spec i s) as [->|Hne].
  - rewrite N.shiftl_spec_high' by lia. rewrite N.sub_diag. reflexivity.
  - destruct (N.lt_ge_cases i s).
    + apply N.shiftl_spec_low; assumption.
    + rewrite N.shiftl_spec_high' by assumption.
      change 1 with (N.ones 1). rewrite N.ones_spec_high; [reflexivity|lia].
Qed.

Lemma testbit_ones128 i : N.testbit ones128 i = (i <? 128).
Proof.
  unfold ones128. destruct (N.ltb_spec i 128).
  - apply N.ones_spec_low; assumption.
  - apply N.ones_spec_high; assumption.
Qed.

Lemma testbit_mask128 x i : N.testbit (mask128 x) i = N.testbit x i && (i <? 128).
Proof. unfold mask128. rewrite N.land_spec, testbit_ones128. reflexivity. Qed.

Lemma shl128_small ovf x n : n < 128 -> shl128 ovf x n = Ok (mask128 (N.shiftl x n)).
Proof. intros H. unfold shl128. destruct (N.leb_spec 128 n); [lia|reflexivity]. Qed.

(* seen sets are boolean lists indexed by sequence number *)
Definition sn (seen : list bool) (i : N) : bool := nth (N.to_nat i) seen false.

Definition bm_inv (b total : N) (seen : list bool) : Prop :=
  forall i, N.testbit b i = (i <? 128) && ((total <=? i) || sn seen i).

Lemma sn_set_nth seen s i :
  (N.to_nat s < length seen)%nat ->
  sn (set_nth seen (N.to_nat s) true) i = (i =? s) || sn seen i.
Proof.
  intros Hs. unfold sn. destruct (N.eqb_spec i s) as [->|Hne].
  - rewrite nth_set_nth_same by assumption. reflexivity.
  - rewrite nth_set_nth_other by lia. reflexivity.
Qed.

Lemma sn_repeat_false k i : sn (repeat false k) i = false.
Proof.
  unfold sn. generalize (N.to_nat i) as j. induction k as [|k IH]; intros [|j]; cbn; auto.
Qed.

Lemma bm_new_inv total s :
  total <= 127 -> s < total ->
  bm_inv (N.lor (mask128 (N.shiftl ones128 total)) (mask128 (N.shiftl 1 s))) total
         (set_nth (repeat false (N.to_nat total)) (N.to_nat s) true).
Proof.
  intros Ht Hs i.
  rewrite N.lor_spec, !testbit_mask128, testbit_one_shift.
  rewrite sn_set_nth by (rewrite repeat_length; lia). rewrite sn_repeat_false.
  assert (Hsh : N.testbit (N.shiftl ones128 total) i = (total <=? i) && (i - total <? 128)).
  { destruct (N.leb_spec total i).
    - rewrite N.shiftl_spec_high' by assumption. rewrite testbit_ones128. reflexivity.
    - rewrite N.shiftl_spec_low by assumption. reflexivity. }
  rewrite Hsh.
  destruct (N.ltb_spec i 128), (N.leb_spec total i), (N.ltb_spec (i - total) 128),
    (N.eqb_spec i s); cbn; try reflexivity; lia.
Qed.

Lemma bm_set_inv b total seen s :
  s < 128 -> (N.to_nat s < length seen)%nat -> bm_inv b total seen ->
  bm_inv (N.lor b (mask128 (N.shiftl 1 s))) total (set_nth seen (N.to_nat s) true).
Proof.
  intros Hs Hl H i. rewrite N.lor_spec, testbit_mask128, testbit_one_shift, H, sn_set_nth by assumption.
  destruct (N.ltb_spec i 128); cbn.
  - destruct (total <=? i), (i =? s), (sn seen i); reflexivity.
  - destruct (N.eqb_spec i s); [lia|reflexivity].
Qed.

Lemma bm_has b total seen s :
  s < total -> total <= 127 -> bm_inv b total seen ->
  (N.land b (mask128 (N.shiftl 1 s)) =? 0) = negb (sn seen s).
Proof.
  intros Hs Ht H.
  destruct (sn seen s) eqn:Hseen; cbn [negb].
  - apply N.eqb_neq. intros Hz.
    assert (Hb : N.testbit (N.land b (mask128 (N.shiftl 1 s))) s = true).
    { rewrite N.land_spec, testbit_mask128, testbit_one_shift, H, Hseen, N.eqb_refl.
      destruct (N.ltb_spec s 128); [|lia]. destruct (total <=? s); reflexivity. }
    rewrite Hz in Hb. rewrite N.bits_0 in Hb. discriminate.
  - apply N.eqb_eq. apply N.bits_inj. intros i. rewrite N.bits_0.
    rewrite N.land_spec, testbit_mask128, testbit_one_shift, H.
    destruct (N.eqb_spec i s) as [->|Hne].
    + rewrite Hseen. destruct (N.leb_spec total s); [lia|].
      destruct (s <? 128); reflexivity.
    + cbn. apply andb_false_r.
Qed.

Definition all_seen (total : N) (seen : list bool) : Prop :=
  forall i, i < total -> sn seen i = true.

Lemma bm_done_iff b total seen :
  total <= 128 -> bm_inv b total seen -> ((b =? ones128) = true <-> all_seen total seen).
Proof.
  intros Ht H. rewrite N.eqb_eq. split.
  - intros -> i Hi. specialize (H i). rewrite testbit_ones128 in H.
    destruct (N.ltb_spec i 128); [|lia]. cbn in H.
    destruct (N.leb_spec total i); [lia|]. cbn in H. congruence.
  - intros Hall. apply N.bits_inj. intros i. rewrite H, testbit_ones128.
    destruct (N.ltb_spec i 128); cbn; [|reflexivity].
    destruct (N.leb_spec total i); cbn; [reflexivity|]. apply Hall; assumption.
Qed.

(* ------------------------------------------------------------------------------------- *)
(* boolean lists                                                                          *)

Definition allb (seen : list bool) : bool := forallb (fun x => x) seen.
Definition anyb (seen : list bool) : bool := existsb (fun x => x) seen.

Lemma allb_nth seen :
  allb seen = true <-> (forall j, (j < length seen)%nat -> nth j seen false = true).
Proof.
  unfold allb. induction seen as [|x t IH]; cbn [forallb length].
  - split; [intros _ j Hj; lia|reflexivity].
  - rewrite andb_true_iff, IH. split.
    + intros [-> Ht] [|j] Hj; cbn [nth]; [reflexivity|apply Ht; lia].
    + intros H. split; [apply (H 0%nat); lia|intros j Hj; apply (H (S j)); lia].
Qed.

Lemma anyb_false_nth seen : anyb seen = false -> forall j, nth j seen false = false.
Proof.
  unfold anyb. induction seen as [|x t IH]; cbn [existsb]; intros H [|j]; cbn [nth]; auto.
  - apply orb_false_iff in H. tauto.
  - apply orb_false_iff in H. apply IH. tauto.
Qed.

Lemma anyb_false_repeat seen : anyb seen = false -> seen = repeat false (length seen).
Proof.
  unfold anyb. induction seen as [|x t IH]; cbn [existsb length repeat]; intros H; auto.
  apply orb_false_iff in H. destruct H as [-> H]. f_equal. auto.
Qed.

Lemma anyb_repeat_false k : anyb (repeat false k) = false.
Proof. unfold anyb. induction k; cbn; auto. Qed.

Lemma anyb_set_nth seen i : (i < length seen)%nat -> anyb (set_nth seen i true) = true.
Proof.
  unfold anyb. revert i. induction seen as [|x t IH]; intros [|i] Hi; cbn [length set_nth existsb] in *;
    try lia; auto. rewrite IH by lia. apply orb_true_r.
Qed.

Lemma allb_repeat_false k : (0 < k)%nat -> allb (repeat false k) = false.
Proof. destruct k; [lia|reflexivity]. Qed.

Lemma allb_set_repeat k i : (2 <= k)%nat -> allb (set_nth (repeat false k) i true) = false.
Proof.
  intros Hk. destruct (allb _) eqn:E; [|reflexivity]. exfalso.
  rewrite allb_nth in E. rewrite set_nth_length, repeat_length in E.
  destruct (Nat.eq_dec i 0) as [->|Hne].
  - specialize (E 1%nat ltac:(lia)). rewrite nth_set_nth_other in E by lia.
    rewrite nth_repeat in E. discriminate.
  - specialize (E 0%nat ltac:(lia)). rewrite nth_set_nth_other in E by lia.
    rewrite nth_repeat in E. discriminate.
Qed.

Lemma all_seen_allb n seen :
  length seen = N.to_nat n -> (all_seen n seen <-> allb seen = true).
Proof.
  intros Hl. rewrite allb_nth. unfold all_seen, sn. split.
  - intros H j Hj. specialize (H (N.of_nat j) ltac:(lia)). rewrite Nat2N.id in H. exact H.
  - intros H i Hi. apply H. lia.
Qed.

(* ------------------------------------------------------------------------------------- *)
(* one frame, any arrival order with any duplicates: the model refines a seen-set spec     *)

Section Single.
Variable T : Type.
Variable from_buffer : bytes -> option T.
Variable ovf : bool.
Variables (id n : N) (bodies : list bytes).
Hypothesis Hid : id < 65536.
Hypothesis Hn1 : 1 <= n.
Hypothesis Hn : n <= 127.
Hypothesis Hlen : length bodies = N.to_nat n.

Definition dg (i : nat) : bytes := frag_header id n (N.of_nat i) ++ nth i bodies [].
Definition frame : bytes := concat bodies.

Definition spec_step (seen : list bool) (i : nat) : list bool * bool :=
  if nth i seen false then (seen, false)
  else let seen' := set_nth seen i true in
       if allb seen' then (repeat false (N.to_nat n), true) else (seen', false).

Fixpoint spec_run (seen : list bool) (ixs : list nat) : list bool :=
  match ixs with
  | [] => []
  | i :: rest => let '(seen', e) := spec_step seen i in e :: spec_run seen' rest
  end.

Fixpoint recv_all (timeout now : N) (st : fstate) (dgs : list bytes)
  : list (outcome (option T)) :=
  match dgs with
  | [] => []
  | d :: rest => let '(st', o) := reassemble T from_buffer ovf now timeout st d in
                 o :: recv_all timeout (now + 1) st' rest
  end.

Definition R (st : fstate) (seen : list bool) : Prop :=
  length seen = N.to_nat n /\ allb seen = false /\
  if anyb seen then
    exists q, alookup id (fs_queue st) = Some q /\ length (rq_frags q) = N.to_nat n /\
      bm_inv (rq_bitmap q) n seen /\
      (forall j, nth j seen false = true -> nth j (rq_frags q) [] = nth j bodies [])
  else alookup id (fs_queue st) = None.

Lemma dg_len i : (len (dg i) <? 4) = false.
Proof. unfold dg, frag_header, u16_be, len. cbn [app length]. apply N.ltb_ge. lia. Qed.

Lemma dg_id i : get_u16 (dg i) = id.
Proof.
  unfold dg, frag_header, u16_be. cbn [app get_u16].
  rewrite (N.mod_small (id / 256)) by (apply N.div_lt_upper_bound; lia).
  pose proof (N.div_mod id 256 ltac:(lia)). lia.
Qed.

Lemma dg_total i : nth 2 (dg i) 0 = n.
Proof. reflexivity. Qed.
Lemma dg_seq i : nth 3 (dg i) 0 = N.of_nat i.
Proof. reflexivity. Qed.
Lemma dg_body i : skipn 4 (dg i) = nth i bodies [].
Proof. reflexivity. Qed.

Lemma frags_eq_bodies (frs : list bytes) :
  length frs = N.to_nat n ->
  (forall j, (j < N.to_nat n)%nat -> nth j frs [] = nth j bodies []) -> frs = bodies.
Proof.
  intros Hl H. apply (nth_ext frs bodies [] []); [lia|]. intros j Hj. apply H. lia.
Qed.

Lemma step_ok timeout now st seen i :
  R st seen -> (i < N.to_nat n)%nat ->
  let '(st', o) := reassemble T from_buffer ovf now timeout st (dg i) in
  let '(seen', e) := spec_step seen i in
  R st' seen' /\ o = Ok (if e then from_buffer frame else None).
Proof.
  intros (Hl & Hnall & HR) Hi.
  unfold reassemble. rewrite dg_len, dg_id, dg_total, dg_seq, dg_body.
  assert (Hguard : (n =? 0) || (127 <? n) || (n <=? N.of_nat i) = false).
  { destruct (N.eqb_spec n 0), (N.ltb_spec 127 n), (N.leb_spec n (N.of_nat i)); cbn; lia. }
  rewrite Hguard.
  destruct (N.eqb_spec n 1) as [Hone|Hnone].
  - (* single-fragment fast path *)
    assert (i = 0)%nat by lia. subst i. cbn [N.of_nat]. rewrite N.eqb_refl. cbn [andb].
    assert (Hseen : seen = [false]).
    { destruct seen as [|x [|y t]]; cbn [length] in Hl; try lia.
      destruct x; [discriminate|reflexivity]. }
    subst seen. unfold spec_step. cbn [nth set_nth allb forallb andb].
    replace (N.to_nat n) with 1%nat by lia. cbn [repeat].
    split.
    + split; [first [exact Hl|reflexivity]|]. split; [reflexivity|]. exact HR.
    + unfold frame. destruct bodies as [|b0 [|b1 t]]; cbn [length] in Hlen; try lia.
      cbn [nth concat]. rewrite app_nil_r. reflexivity.
  - cbn [andb]. unfold spec_step.
    destruct (anyb seen) eqn:Hany.
    + (* an entry exists *)
      destruct HR as (q & Hq & Hfl & Hinv & Hbod). rewrite Hq.
      rewrite Hfl, N2Nat.id, N.eqb_refl. cbn [negb].
      unfold rq_add. rewrite shl128_small by lia. cbn [obind].
      rewrite (bm_has _ n seen) by (auto; lia).
      unfold sn. rewrite Nat2N.id.
      destruct (nth i seen false) eqn:Hsi; cbn [negb].
      * (* duplicate of a fragment already held *)
        split; [|reflexivity]. split; [assumption|]. split; [assumption|].
        rewrite Hany. exists q. cbn [fs_queue]. rewrite alookup_ainsert_same. auto.
      * assert (Hlt : (N.of_nat i <? len (rq_frags q)) = true).
        { apply N.ltb_lt. unfold len. lia. }
        rewrite Hlt. rewrite ?Nat2N.id.
        pose proof (bm_set_inv _ n seen (N.of_nat i) ltac:(lia) ltac:(rewrite Nat2N.id; lia) Hinv)
          as Hinv'. rewrite Nat2N.id in Hinv'.
        assert (Hl' : length (set_nth seen i true) = N.to_nat n) by (rewrite set_nth_length; exact Hl).
        pose proof (bm_done_iff _ n _ ltac:(lia) Hinv') as Hdone.
        rewrite (all_seen_allb n _ Hl') in Hdone.
        assert (Hbod' : forall j, nth j (set_nth seen i true) false = true ->
                  nth j (set_nth (rq_frags q) i (nth i bodies [])) [] = nth j bodies []).
        { intros j Hj. destruct (Nat.eq_dec i j) as [->|Hne].
          - apply nth_set_nth_same. lia.
          - rewrite nth_set_nth_other in Hj by assumption.
            rewrite nth_set_nth_other by assumption. auto. }
        destruct (allb (set_nth seen i true)) eqn:Hall.
        -- (* completes the frame *)
           assert (Hd : (N.lor (rq_bitmap q) (mask128 (N.shiftl 1 (N.of_nat i))) =? ones128) = true)
             by (apply Hdone; reflexivity).
           rewrite Hd. unfold rq_assemble. cbn [rq_frags].
           assert (Hfr : set_nth (rq_frags q) i (nth i bodies []) = bodies).
           { apply frags_eq_bodies; [rewrite set_nth_length; exact Hfl|].
             intros j Hj. apply Hbod'. rewrite allb_nth in Hall. apply Hall. lia. }
           rewrite Hfr. destruct bodies as [|b0 t] eqn:Eb; [cbn [length] in Hlen; lia|].
           rewrite <- Eb. split; [|reflexivity].
           split; [apply repeat_length|]. split; [apply allb_repeat_false; lia|].
           rewrite anyb_repeat_false. cbn [fs_queue]. apply alookup_aremove_same.
        -- assert (Hd : (N.lor (rq_bitmap q) (mask128 (N.shiftl 1 (N.of_nat i))) =? ones128) = false).
           { destruct (_ =? ones128) eqn:E; [|reflexivity]. exfalso.
             assert (X : false = true) by (apply Hdone; first [exact E|reflexivity]).
             discriminate. }
           rewrite Hd. split; [|reflexivity].
           split; [assumption|]. split; [assumption|].
           rewrite anyb_set_nth by lia. cbn [fs_queue]. rewrite alookup_ainsert_same.
           eexists. split; [reflexivity|]. cbn [rq_frags rq_bitmap].
           rewrite set_nth_length. auto.
    + (* first fragment of the frame: a new entry *)
      rewrite HR. unfold rq_new. rewrite !shl128_small by lia. cbn [obind].
      assert (Hlt : (N.of_nat i <? n) = true) by (apply N.ltb_lt; lia). rewrite Hlt.
      rewrite (anyb_false_nth _ Hany i).
      pose proof (anyb_false_repeat _ Hany) as Hrep. rewrite Hl in Hrep.
      assert (Hall : allb (set_nth seen i true) = false).
      { rewrite Hrep. apply allb_set_repeat. lia. }
      rewrite Hall. split; [|reflexivity].
      split; [rewrite set_nth_length; exact Hl|]. split; [exact Hall|].
      rewrite anyb_set_nth by lia. cbn [fs_queue]. rewrite alookup_ainsert_same.
      eexists. split; [reflexivity|]. cbn [rq_frags rq_bitmap].
      rewrite set_nth_length, repeat_length. split; [reflexivity|]. split.
      * rewrite Hrep. rewrite <- (Nat2N.id i) at 2. apply bm_new_inv; lia.
      * intros j Hj. rewrite Nat2N.id. destruct (Nat.eq_dec i j) as [->|Hne].
        -- apply nth_set_nth_same. rewrite repeat_length. lia.
        -- rewrite nth_set_nth_other in Hj by assumption.
           rewrite (anyb_false_nth _ Hany j) in Hj. discriminate.
Qed.

Theorem reassemble_refines_spec timeout :
  forall ixs now st seen,
    R st seen -> Forall (fun i => (i < N.to_nat n)%nat) ixs ->
    recv_all timeout now st (map dg ixs) =
    map (fun e : bool => Ok (if e then from_buffer frame else None)) (spec_run seen ixs).
Proof.
  induction ixs as [|i ixs IH]; intros now st seen HR Hix; [reflexivity|].
  inversion Hix as [|? ? Hi Hrest]; subst.
  cbn [map recv_all spec_run].
  pose proof (step_ok timeout now st seen i HR Hi) as Hstep.
  destruct (reassemble T from_buffer ovf now timeout st (dg i)) as [st' o].
  destruct (spec_step seen i) as [seen' e]. destruct Hstep as [HR' ->].
  cbn [map]. f_equal. apply IH; assumption.
Qed.

Lemma R_init st :
  alookup id (fs_queue st) = None -> R st (repeat false (N.to_nat n)).
Proof.
  intros H. split; [apply repeat_length|]. split; [apply allb_repeat_false; lia|].
  rewrite anyb_repeat_false. exact H.
Qed.

End Single.

(* ------------------------------------------------------------------------------------- *)
(* what the seen-set spec delivers                                                        *)

Section Spec.
Variable n : N.
Let k := N.to_nat n.
Hypothesis Hk : (0 < k)%nat.

Definition covers (seen : list bool) (l : list nat) : Prop :=
  forall j, (j < k)%nat -> nth j seen false = true \/ In j l.
Definition covers0 (l : list nat) : Prop := forall j, (j < k)%nat -> In j l.

Lemma covers_repeat l : covers (repeat false k) l <-> covers0 l.
Proof.
  unfold covers, covers0. split; intros H j Hj; specialize (H j Hj).
  - destruct H as [H|H]; [|exact H]. rewrite nth_repeat in H. discriminate.
  - right; exact H.
Qed.

Lemma set_nth_true_cases (seen : list bool) i j :
  nth j (set_nth seen i true) false = true -> j = i \/ nth j seen false = true.
Proof.
  intros H. destruct (Nat.eq_dec i j) as [->|Hne]; [left; reflexivity|].
  rewrite nth_set_nth_other in H by assumption. right; exact H.
Qed.

Lemma set_nth_true_mono (seen : list bool) i j :
  nth j seen false = true -> nth j (set_nth seen i true) false = true.
Proof.
  intros H. destruct (Nat.eq_dec i j) as [->|Hne].
  - destruct (Nat.lt_ge_cases j (length seen)).
    + apply nth_set_nth_same; assumption.
    + rewrite nth_overflow in H by assumption. discriminate.
  - rewrite nth_set_nth_other by assumption. exact H.
Qed.

Lemma spec_no_cover_no_emit : forall l seen,
  length seen = k -> Forall (fun i => (i < k)%nat) l -> ~ covers seen l ->
  spec_run n seen l = repeat false (length l).
Proof.
  induction l as [|i l IH]; intros seen Hl Hix Hnc; [reflexivity|].
  inversion Hix as [|? ? Hi Hrest]; subst.
  cbn [spec_run length repeat]. unfold spec_step.
  destruct (nth i seen false) eqn:Hsi.
  - f_equal. apply IH; auto. intros Hc. apply Hnc. intros j Hj.
    destruct (Hc j Hj); [left; assumption|right; right; assumption].
  - destruct (allb (set_nth seen i true)) eqn:Hall.
    + exfalso. apply Hnc. intros j Hj. rewrite allb_nth in Hall.
      specialize (Hall j). rewrite set_nth_length in Hall. specialize (Hall ltac:(lia)).
      destruct (set_nth_true_cases _ _ _ Hall) as [->|H]; [right; left; reflexivity|left; exact H].
    + f_equal. apply IH; auto; [rewrite set_nth_length; exact Hl|].
      intros Hc. apply Hnc. intros j Hj. destruct (Hc j Hj) as [H|H].
      * destruct (set_nth_true_cases _ _ _ H) as [->|H']; [right; left; reflexivity|left; exact H'].
      * right; right; exact H.
Qed.

Lemma spec_first_cover : forall pre seen i post,
  length seen = k -> Forall (fun i => (i < k)%nat) pre -> (i < k)%nat ->
  ~ covers seen pre -> covers seen (pre ++ [i]) ->
  spec_run n seen (pre ++ i :: post) =
  repeat false (length pre) ++ true :: spec_run n (repeat false k) post.
Proof.
  induction pre as [|p pre IH]; intros seen i post Hl Hpre Hi Hnc Hc.
  - cbn [app length repeat spec_run]. unfold spec_step.
    destruct (nth i seen false) eqn:Hsi.
    + exfalso. apply Hnc. intros j Hj. destruct (Hc j Hj) as [H|[<-|[]]]; left; assumption.
    + assert (Hall : allb (set_nth seen i true) = true).
      { apply allb_nth. intros j Hj. rewrite set_nth_length in Hj.
        destruct (Hc j ltac:(lia)) as [H|[<-|[]]].
        - apply set_nth_true_mono; exact H.
        - apply nth_set_nth_same. lia. }
      rewrite Hall. reflexivity.
  - inversion Hpre as [|? ? Hp Hrest]; subst.
    cbn [app length repeat spec_run]. unfold spec_step.
    destruct (nth p seen false) eqn:Hsp.
    + f_equal. apply IH; auto.
      * intros Hc'. apply Hnc. intros j Hj. destruct (Hc' j Hj); [left|right; right]; assumption.
      * intros j Hj. destruct (Hc j Hj) as [H|[<-|H]]; [left; exact H|left; exact Hsp|right; exact H].
    + destruct (allb (set_nth seen p true)) eqn:Hall.
      * exfalso. apply Hnc. intros j Hj. rewrite allb_nth in Hall.
        specialize (Hall j). rewrite set_nth_length in Hall. specialize (Hall ltac:(lia)).
        destruct (set_nth_true_cases _ _ _ Hall) as [->|H]; [right; left; reflexivity|left; exact H].
      * f_equal. apply IH; auto; [rewrite set_nth_length; exact Hl| |].
        -- intros Hc'. apply Hnc. intros j Hj. destruct (Hc' j Hj) as [H|H].
           ++ destruct (set_nth_true_cases _ _ _ H) as [->|H']; [right; left; reflexivity|left; exact H'].
           ++ right; right; exact H.
        -- intros j Hj. destruct (Hc j Hj) as [H|[<-|H]].
           ++ left. apply set_nth_true_mono; exact H.
           ++ left. apply nth_set_nth_same. lia.
           ++ right; exact H.
Qed.

(* a second complete copy of the frame (the known-finding class of C11) *)
Definition two_covers (l : list nat) : Prop :=
  exists a b, l = a ++ b /\ covers0 a /\ covers0 b.

Definition covers0b (l : list nat) : bool :=
  forallb (fun j => existsb (Nat.eqb j) l) (seq 0 k).

Lemma covers0b_spec l : covers0b l = true <-> covers0 l.
Proof.
  unfold covers0b, covers0. rewrite forallb_forall. split.
  - intros H j Hj. specialize (H j ltac:(apply in_seq; lia)).
    apply existsb_exists in H. destruct H as (x & Hin & Heq). apply Nat.eqb_eq in Heq. subst; exact Hin.
  - intros H j Hj. apply in_seq in Hj. apply existsb_exists. exists j. split; [apply H; lia|apply Nat.eqb_refl].
Qed.

Lemma first_cover_split : forall l, covers0 l ->
  exists pre i post, l = pre ++ i :: post /\ ~ covers0 pre /\ covers0 (pre ++ [i]).
Proof.
  induction l as [|x l IH] using rev_ind; intros Hc.
  - exfalso. destruct (Hc 0%nat Hk).
  - destruct (covers0b l) eqn:E.
    + apply covers0b_spec in E. destruct (IH E) as (pre & i & post & -> & Hn & Hy).
      exists pre, i, (post ++ [x]). rewrite <- app_assoc. auto.
    + exists l, x, []. split; [reflexivity|]. split; [|exact Hc].
      intros H. apply covers0b_spec in H. congruence.
Qed.

Theorem spec_exactly_once l :
  Forall (fun i => (i < k)%nat) l -> covers0 l -> ~ two_covers l ->
  exists pre post : list nat, length l = S (length pre + length post) /\
    spec_run n (repeat false k) l = repeat false (length pre) ++ true :: repeat false (length post).
Proof.
  intros Hix Hc Hn2.
  destruct (first_cover_split l Hc) as (pre & i & post & -> & Hnp & Hcp).
  apply Forall_app in Hix. destruct Hix as [Hpre Hipost].
  inversion Hipost as [|? ? Hi Hpost]; subst.
  exists pre, post. split; [rewrite app_length; cbn; lia|].
  rewrite spec_first_cover; auto using repeat_length.
  - f_equal. f_equal. apply spec_no_cover_no_emit; auto using repeat_length.
    rewrite covers_repeat. intros Hcpost. apply Hn2.
    exists (pre ++ [i]), post. rewrite <- app_assoc. auto.
  - rewrite covers_repeat. exact Hnp.
  - rewrite covers_repeat. exact Hcp.
Qed.

Lemma nodup_not_two_covers l : NoDup l -> ~ two_covers l.
Proof.
  intros Hnd (a & b & -> & Ha & Hb).
  pose proof (Ha 0%nat Hk) as Hia. pose proof (Hb 0%nat Hk) as Hib.
  revert Hnd Hia Hib. clear. induction a as [|x a IH]; intros Hnd Hia Hib; [contradiction|].
  cbn [app] in Hnd. inversion Hnd as [|? ? Hnin Hnd']; subst.
  destruct Hia as [->|Hia]; [apply Hnin; apply in_or_app; right; exact Hib|auto].
Qed.

End Spec.

(* ------------------------------------------------------------------------------------- *)
(* every datagram, any state: no panic; garbage changes nothing; ids are independent       *)

Section General.
Variable T : Type.
Variable from_buffer : bytes -> option T.
Variable ovf : bool.

Notation reassemble := (reassemble T from_buffer ovf).

Definition wf_q (q : rq) : Prop := (1 <= length (rq_frags q) <= 127)%nat.
Definition wf (st : fstate) : Prop :=
  forall id q, alookup id (fs_queue st) = Some q -> wf_q q.

Lemma wf_ainsert st id q tm :
  wf st -> wf_q q -> wf (mk_fs (ainsert id q (fs_queue st)) tm).
Proof.
  intros Hwf Hq id' q'. cbn [fs_queue]. destruct (N.eq_dec id' id) as [->|Hne].
  - rewrite alookup_ainsert_same. intros [= <-]. exact Hq.
  - rewrite alookup_ainsert_other by assumption. apply Hwf.
Qed.

Lemma wf_aremove st id tm : wf st -> wf (mk_fs (aremove id (fs_queue st)) tm).
Proof. intros Hwf id' q' H. cbn [fs_queue] in H. apply alookup_aremove_some in H. eauto. Qed.

Definition hdr_total (buf : bytes) := nth 2 buf 0.
Definition hdr_seq (buf : bytes) := nth 3 buf 0.
Definition malformed (buf : bytes) : bool :=
  (len buf <? 4) || ((hdr_total buf =? 0) || (127 <? hdr_total buf) || (hdr_total buf <=? hdr_seq buf)).

Theorem reassemble_safe now timeout st buf :
  wf st ->
  wf (fst (reassemble now timeout st buf)) /\ is_panic (snd (reassemble now timeout st buf)) = false.
Proof.
  intros Hwf. unfold Frag.reassemble.
  destruct (len buf <? 4); [auto|].
  set (id := get_u16 buf). set (total := nth 2 buf 0). set (s := nth 3 buf 0).
  destruct ((total =? 0) || (127 <? total) || (total <=? s)) eqn:Hg; [auto|].
  apply orb_false_iff in Hg. destruct Hg as [Hg Hg3]. apply orb_false_iff in Hg. destruct Hg as [Hg1 Hg2].
  apply N.eqb_neq in Hg1. apply N.ltb_ge in Hg2. apply N.leb_gt in Hg3.
  destruct ((total =? 1) && (s =? 0)); [auto|].
  destruct (alookup id (fs_queue st)) as [q|] eqn:Hq.
  - destruct (N.eqb_spec (N.of_nat (length (rq_frags q))) total) as [Hlq|Hlq]; cbn [negb]; [|auto].
    unfold rq_add. rewrite shl128_small by lia. cbn [obind].
    destruct (N.land (rq_bitmap q) _ =? 0).
    + assert (Hlt : (s <? len (rq_frags q)) = true) by (apply N.ltb_lt; unfold len; lia).
      rewrite Hlt. destruct (_ =? ones128).
      * unfold rq_assemble. cbn [rq_frags].
        destruct (set_nth (rq_frags q) (N.to_nat s) (skipn 4 buf)) eqn:E.
        -- apply (f_equal (@length _)) in E. rewrite set_nth_length in E. cbn in E. lia.
        -- cbn [fst snd is_panic]. split; [apply wf_aremove; exact Hwf|reflexivity].
      * cbn [fst snd is_panic]. split; [|reflexivity]. apply wf_ainsert; [exact Hwf|].
        unfold wf_q. cbn [rq_frags]. rewrite set_nth_length. lia.
    + cbn [fst snd is_panic]. split; [|reflexivity]. apply wf_ainsert; [exact Hwf|].
      unfold wf_q. lia.
  - unfold rq_new. rewrite !shl128_small by lia. cbn [obind].
    assert (Hlt : (s <? total) = true) by (apply N.ltb_lt; lia). rewrite Hlt.
    cbn [fst snd is_panic]. split; [|reflexivity]. apply wf_ainsert; [exact Hwf|].
    unfold wf_q. cbn [rq_frags]. rewrite set_nth_length, repeat_length. lia.
Qed.

Lemma timer_go_wf now tm : forall queue,
  (forall id q, alookup id queue = Some q -> wf_q q) -> wf (timer_go now queue tm).
Proof.
  induction tm as [|[id dl] tm IH]; intros queue H; cbn [timer_go].
  - exact H.
  - destruct (dl <? now).
    + apply IH. intros id' q' Hq. apply alookup_aremove_some in Hq. eauto.
    + exact H.
Qed.

Lemma timer_wf now st : wf st -> wf (timer now st).
Proof. intros H. apply timer_go_wf. exact H. Qed.

Lemma wf_empty : wf fs_empty.
Proof. intros id q H. discriminate. Qed.

(* the op interpreter never reports a panic, for any op list *)
Theorem frag_run_never_panics timeout : forall ops now st,
  wf st -> Forall (fun r => match r with Some o => is_panic o = false | None => True end)
                  (frag_run T from_buffer ovf timeout now st ops).
Proof.
  induction ops as [|op ops IH]; intros now st Hwf; cbn [frag_run]; [constructor|].
  destruct op as [dg|].
  - pose proof (reassemble_safe now timeout st dg Hwf) as [Hwf' Hnp].
    destruct (reassemble now timeout st dg) as [st' o]. cbn [fst snd] in *.
    constructor; [exact Hnp|]. destruct o; try (apply IH; exact Hwf'). discriminate.
  - constructor; [exact I|]. apply IH. apply timer_wf. exact Hwf.
Qed.

Theorem garbage_yields_nothing now timeout st buf :
  malformed buf = true -> reassemble now timeout st buf = (st, Ok None).
Proof.
  unfold malformed, hdr_total, hdr_seq, Frag.reassemble. intros H.
  destruct (len buf <? 4); [reflexivity|]. cbn [orb] in H. rewrite H. reflexivity.
Qed.

Theorem inconsistent_total_yields_nothing now timeout st buf q :
  malformed buf = false ->
  negb ((hdr_total buf =? 1) && (hdr_seq buf =? 0)) = true ->
  alookup (get_u16 buf) (fs_queue st) = Some q ->
  N.of_nat (length (rq_frags q)) <> hdr_total buf ->
  reassemble now timeout st buf = (st, Ok None).
Proof.
  unfold malformed, hdr_total, hdr_seq, Frag.reassemble. intros Hm Hf Hq Hne.
  apply orb_false_iff in Hm. destruct Hm as [-> ->].
  apply negb_true_iff in Hf. rewrite Hf, Hq.
  destruct (N.eqb_spec (N.of_nat (length (rq_frags q))) (nth 2 buf 0)); [contradiction|reflexivity].
Qed.

(* a datagram only reads and writes the queue entry of its own id *)
Lemma reassemble_other_ids now timeout st buf k :
  k <> get_u16 buf ->
  alookup k (fs_queue (fst (reassemble now timeout st buf))) = alookup k (fs_queue st).
Proof.
  intros Hne. unfold Frag.reassemble.
  destruct (len buf <? 4); [reflexivity|].
  destruct (_ || _ || _); [reflexivity|].
  destruct (_ && _); [reflexivity|].
  destruct (alookup (get_u16 buf) (fs_queue st)) as [q|].
  - destruct (negb _); [reflexivity|].
    destruct (rq_add ovf q _ _) as [[q' [|]]| |]; try reflexivity.
    + destruct (rq_assemble q'); try reflexivity. cbn [fst fs_queue].
      apply alookup_aremove_other; assumption.
    + cbn [fst fs_queue]. apply alookup_ainsert_other; assumption.
  - destruct (rq_new ovf _ _ _); try reflexivity. cbn [fst fs_queue].
    apply alookup_ainsert_other; assumption.
Qed.

Lemma reassemble_local now1 now2 timeout st1 st2 buf :
  alookup (get_u16 buf) (fs_queue st1) = alookup (get_u16 buf) (fs_queue st2) ->
  snd (reassemble now1 timeout st1 buf) = snd (reassemble now2 timeout st2 buf) /\
  alookup (get_u16 buf) (fs_queue (fst (reassemble now1 timeout st1 buf))) =
  alookup (get_u16 buf) (fs_queue (fst (reassemble now2 timeout st2 buf))).
Proof.
  intros Heq. unfold Frag.reassemble.
  destruct (len buf <? 4); [auto|].
  destruct (_ || _ || _); [auto|].
  destruct (_ && _); [auto|].
  rewrite <- Heq.
  destruct (alookup (get_u16 buf) (fs_queue st1)) as [q|] eqn:Hq.
  - destruct (negb _); [cbn [fst snd]; split; [reflexivity|congruence]|].
    destruct (rq_add ovf q _ _) as [[q' [|]]| |]; cbn [fst snd]; try (split; [reflexivity|congruence]).
    + destruct (rq_assemble q'); cbn [fst snd fs_queue]; try (split; [reflexivity|congruence]).
      rewrite !alookup_aremove_same. auto.
    + cbn [fs_queue]. rewrite !alookup_ainsert_same. auto.
  - destruct (rq_new ovf _ _ _); cbn [fst snd fs_queue]; try (split; [reflexivity|congruence]).
    rewrite !alookup_ainsert_same. auto.
Qed.

Notation recv_all := (recv_all T from_buffer ovf).

Fixpoint select (a : N) (dgs : list bytes) (outs : list (outcome (option T))) :=
  match dgs, outs with
  | d :: ds, o :: os => if get_u16 d =? a then o :: select a ds os else select a ds os
  | _, _ => []
  end.

(* outputs for the datagrams of one id are the same whether or not datagrams of other ids
   are interleaved *)
Theorem interleave_independent timeout a : forall dgs now1 now2 st1 st2,
  alookup a (fs_queue st1) = alookup a (fs_queue st2) ->
  select a dgs (recv_all timeout now1 st1 dgs) =
  recv_all timeout now2 st2 (filter (fun d => get_u16 d =? a) dgs).
Proof.
  induction dgs as [|d dgs IH]; intros now1 now2 st1 st2 Heq; [reflexivity|].
  cbn [FragProofs.recv_all filter].
  destruct (N.eqb_spec (get_u16 d) a) as [Hd|Hd].
  - pose proof (reassemble_local now1 now2 timeout st1 st2 d) as Hloc.
    rewrite Hd in Hloc. specialize (Hloc Heq). destruct Hloc as [Ho Hst].
    cbn [FragProofs.recv_all].
    destruct (reassemble now1 timeout st1 d) as [st1' o1].
    destruct (reassemble now2 timeout st2 d) as [st2' o2]. cbn [fst snd] in *.
    cbn [select]. destruct (N.eqb_spec (get_u16 d) a); [|contradiction].
    subst o2. f_equal. apply IH. exact Hst.
  - pose proof (reassemble_other_ids now1 timeout st1 d a ltac:(congruence)) as Hoth.
    destruct (reassemble now1 timeout st1 d) as [st1' o1]. cbn [fst] in Hoth.
    cbn [select]. destruct (N.eqb_spec (get_u16 d) a); [contradiction|].
    apply IH. congruence.
Qed.

(* ---- timer ---------------------------------------------------------------------------- *)

Fixpoint sorted_dl (tm : list (N * N)) : Prop :=
  match tm with
  | [] => True
  | (_, dl) :: rest => (forall e, In e rest -> dl <= snd e) /\ sorted_dl rest
  end.

Lemma timer_go_keeps_none now tm : forall queue k,
  alookup k queue = None -> alookup k (fs_queue (timer_go now queue tm)) = None.
Proof.
  induction tm as [|[id dl] tm IH]; intros queue k H; cbn [timer_go]; [exact H|].
  destruct (dl <? now); [|exact H]. apply IH.
  destruct (N.eq_dec k id) as [->|Hne]; [apply alookup_aremove_same|].
  rewrite alookup_aremove_other; assumption.
Qed.

Theorem timer_discards now : forall tm queue id dl,
  sorted_dl tm -> In (id, dl) tm -> dl < now ->
  alookup id (fs_queue (timer_go now queue tm)) = None.
Proof.
  induction tm as [|[id0 dl0] tm IH]; intros queue id dl Hs Hin Hlt; [contradiction|].
  cbn [timer_go]. destruct Hs as [Hle Hs].
  destruct (N.ltb_spec dl0 now) as [Hexp|Hnexp].
  - destruct Hin as [[= -> ->]|Hin].
    + apply timer_go_keeps_none. apply alookup_aremove_same.
    + eapply IH; eauto.
  - exfalso. destruct Hin as [[= -> ->]|Hin]; [lia|].
    specialize (Hle _ Hin). cbn [snd] in Hle. lia.
Qed.

(* reachable-state invariant tying queue entries to pending deadlines *)
Definition tm_inv (bound : N) (st : fstate) : Prop :=
  sorted_dl (fs_timer st) /\
  (forall e, In e (fs_timer st) -> snd e <= bound) /\
  (forall id q, alookup id (fs_queue st) = Some q -> exists dl, In (id, dl) (fs_timer st)).

Lemma sorted_dl_snoc tm id dl :
  sorted_dl tm -> (forall e, In e tm -> snd e <= dl) -> sorted_dl (tm ++ [(id, dl)]).
Proof.
  induction tm as [|[i d] tm IH]; intros Hs Hb; cbn [app sorted_dl].
  - split; [intros e []|exact I].
  - destruct Hs as [Hle Hs]. split.
    + intros e He. apply in_app_or in He. destruct He as [He|[<-|[]]]; [auto|].
      cbn [snd]. apply (Hb (i, d)). left; reflexivity.
    + apply IH; [exact Hs|]. intros e He. apply Hb. right; exact He.
Qed.

Lemma reassemble_tm_inv now timeout st buf :
  tm_inv (now + timeout) st -> tm_inv (now + timeout) (fst (reassemble now timeout st buf)).
Proof.
  intros (Hs & Hb & Hq). unfold Frag.reassemble.
  destruct (len buf <? 4); [repeat split; auto|].
  destruct (_ || _ || _); [repeat split; auto|].
  destruct (_ && _); [repeat split; auto|].
  destruct (alookup (get_u16 buf) (fs_queue st)) as [q|] eqn:Hlk.
  - destruct (negb _); [repeat split; auto|].
    destruct (rq_add ovf q _ _) as [[q' [|]]| |]; try (repeat split; auto; fail).
    + destruct (rq_assemble q'); try (repeat split; auto; fail).
      cbn [fst]. split; [exact Hs|]. split; [exact Hb|].
      intros id q0 H0. cbn [fs_queue fs_timer] in *. apply alookup_aremove_some in H0. eauto.
    + cbn [fst]. split; [exact Hs|]. split; [exact Hb|].
      intros id q0 H0. cbn [fs_queue fs_timer] in *.
      destruct (N.eq_dec id (get_u16 buf)) as [->|Hne]; [eauto|].
      rewrite alookup_ainsert_other in H0 by assumption. eauto.
  - destruct (rq_new ovf _ _ _); try (repeat split; auto; fail).
    cbn [fst fs_timer fs_queue]. split; [apply sorted_dl_snoc; assumption|]. split.
    + intros e He. apply in_app_or in He. destruct He as [He|[<-|[]]]; [auto|cbn; lia].
    + intros id q0 H0. destruct (N.eq_dec id (get_u16 buf)) as [->|Hne].
      * eexists. apply in_or_app. right. left. reflexivity.
      * cbn [fst fs_queue] in H0. unfold tm_inv in *. idtac.
        rewrite alookup_ainsert_other in H0 by assumption.
        destruct (Hq _ _ H0) as [dl Hdl]. exists dl. apply in_or_app. left; exact Hdl.
Qed.

Lemma tm_inv_mono b1 b2 st : b1 <= b2 -> tm_inv b1 st -> tm_inv b2 st.
Proof.
  intros Hle (Hs & Hb & Hq). split; [exact Hs|]. split; [|exact Hq].
  intros e He. specialize (Hb e He). lia.
Qed.

(* after a timer call at time `now`, no queue entry older than its deadline survives *)
Theorem timer_discards_all bound now st id q :
  tm_inv bound st -> bound < now ->
  alookup id (fs_queue (timer now st)) = Some q -> False.
Proof.
  intros (Hs & Hb & Hq) Hlt Hsome. unfold timer in Hsome.
  destruct (alookup id (fs_queue st)) as [q0|] eqn:H0.
  - destruct (Hq _ _ H0) as [dl Hdl].
    pose proof (timer_discards now _ (fs_queue st) id dl Hs Hdl) as Hd.
    specialize (Hb _ Hdl). cbn [snd] in Hb. rewrite Hd in Hsome by lia. discriminate.
  - rewrite timer_go_keeps_none in Hsome by assumption. discriminate.
Qed.

End General.

(* ------------------------------------------------------------------------------------- *)
(* sender side                                                                            *)

Lemma number_frags_length id total : forall cs s, length (number_frags id total s cs) = length cs.
Proof. induction cs as [|c cs IH]; intros s; cbn [number_frags length]; auto. Qed.

Lemma number_frags_nth id total : forall cs s i,
  (i < length cs)%nat ->
  nth i (number_frags id total s cs) [] =
  frag_header id total ((s + N.of_nat i) mod 256) ++ nth i cs [].
Proof.
  induction cs as [|c cs IH]; intros s i Hi; cbn [length] in Hi; [lia|].
  cbn [number_frags]. destruct i as [|i]; cbn [nth].
  - rewrite N.add_0_r. reflexivity.
  - rewrite IH by lia. do 3 f_equal. lia.
Qed.

Theorem fragments_cover ovf mtu next_id buf :
  4 < mtu -> next_id < 65536 -> (ovf = false \/ next_id < 65535) ->
  let bodies := chunks (N.to_nat (mtu - 4)) buf in
  let c := length bodies in
  (c <= 127)%nat ->
  exists frs,
    make_fragments ovf mtu next_id buf = Ok ((next_id + 1) mod 65536, frs) /\
    length frs = c /\ concat bodies = buf /\
    (forall i, (i < c)%nat -> nth i frs [] = dg next_id (N.of_nat c) bodies i) /\
    (forall f, In f frs -> (length f <= N.to_nat mtu)%nat).
Proof.
  intros Hmtu Hid Hovf bodies c Hc.
  assert (Hsize : (0 < N.to_nat (mtu - 4))%nat) by lia.
  assert (Hcount : div_ceil (len buf) (mtu - 4) = N.of_nat c).
  { unfold c, bodies, chunks. rewrite chunks_fuel_length by auto.
    rewrite <- div_ceil_nat by assumption. unfold len. rewrite N2Nat.id. reflexivity. }
  unfold make_fragments.
  assert (H4 : (4 <? mtu) = true) by (apply N.ltb_lt; assumption). rewrite H4. cbn [negb].
  assert (H6 : ovf && (next_id =? 65535) = false).
  { destruct Hovf as [->|Hlt]; [reflexivity|].
    destruct (N.eqb_spec next_id 65535); [lia|apply andb_false_r]. }
  rewrite H6.
  fold bodies. fold c.
  assert (H7 : ovf && (256 <=? len bodies) = false).
  { unfold len. fold c. destruct (N.leb_spec 256 (N.of_nat c)); [lia|apply andb_false_r]. }
  rewrite H7. rewrite Hcount. rewrite (N.mod_small (N.of_nat c)) by lia.
  eexists. split; [reflexivity|]. split; [apply number_frags_length|].
  split; [apply concat_chunks; assumption|]. split.
  - intros i Hi. rewrite number_frags_nth by assumption.
    rewrite N.add_0_l, N.mod_small by lia. reflexivity.
  - intros f Hf. apply (In_nth _ _ []) in Hf. destruct Hf as (i & Hi & <-).
    rewrite number_frags_length in Hi. rewrite number_frags_nth by assumption.
    unfold frag_header, u16_be. rewrite app_length. cbn [app length].
    assert (Hb : (length (nth i bodies []) <= N.to_nat (mtu - 4))%nat).
    { apply (chunks_fuel_bound (length buf) _ buf). apply nth_In. exact Hi. }
    lia.
Qed.

Lemma map_repeat' {A B} (f : A -> B) x k : map f (repeat x k) = repeat (f x) k.
Proof. induction k; cbn; congruence. Qed.

(* ------------------------------------------------------------------------------------- *)
(* end to end: fragment with the sender, deliver in any order with any duplicates          *)

Theorem fragment_reassemble_exact (T : Type) (from_buffer : bytes -> option T) ovf_rx ovf_tx
        mtu id buf timeout now st ixs :
  4 < mtu -> id < 65536 -> (ovf_tx = false \/ id < 65535) ->
  let c := length (chunks (N.to_nat (mtu - 4)) buf) in
  (1 <= c <= 127)%nat ->
  alookup id (fs_queue st) = None ->
  Forall (fun i => (i < c)%nat) ixs ->
  covers0 (N.of_nat c) ixs -> ~ two_covers (N.of_nat c) ixs ->
  exists id' frs (pre post : list nat),
    make_fragments ovf_tx mtu id buf = Ok (id', frs) /\
    length ixs = S (length pre + length post) /\
    recv_all T from_buffer ovf_rx timeout now st (map (fun i => nth i frs []) ixs) =
    repeat (Ok None) (length pre) ++ Ok (from_buffer buf) :: repeat (Ok None) (length post).
Proof.
  intros Hmtu Hid Hovf c Hc Hnone Hix Hcov Hn2.
  destruct (fragments_cover ovf_tx mtu id buf Hmtu Hid Hovf ltac:(fold c; lia))
    as (frs & Hmk & Hlen & Hcat & Hnth & _).
  fold c in Hlen, Hnth.
  set (bodies := chunks (N.to_nat (mtu - 4)) buf) in *.
  assert (Hk : (0 < N.to_nat (N.of_nat c))%nat) by lia.
  assert (Hix' : Forall (fun i => (i < N.to_nat (N.of_nat c))%nat) ixs)
    by (rewrite Nat2N.id; exact Hix).
  destruct (spec_exactly_once (N.of_nat c) Hk ixs Hix' Hcov Hn2) as (pre & post & Hl & Hspec).
  exists ((id + 1) mod 65536), frs, pre, post. split; [exact Hmk|]. split; [exact Hl|].
  assert (Hmap : map (fun i => nth i frs []) ixs = map (dg id (N.of_nat c) bodies) ixs).
  { apply map_ext_in. intros i Hi. rewrite Forall_forall in Hix. apply Hnth. auto. }
  rewrite Hmap.
  rewrite (reassemble_refines_spec T from_buffer ovf_rx id (N.of_nat c) bodies Hid
             ltac:(lia) ltac:(lia) ltac:(rewrite Nat2N.id; reflexivity) timeout ixs now st
             (repeat false (N.to_nat (N.of_nat c)))).
  - rewrite Hspec. rewrite map_app. cbn [map]. rewrite !map_repeat'.
    unfold frame. rewrite Hcat. reflexivity.
  - apply R_init; first [exact Hnone|lia].
  - exact Hix'.
Qed.

(* the known-finding class is real: a second complete copy delivers the frame again *)
Lemma dup_refuted :
  exists ixs, two_covers 2 ixs /\
    recv_all bytes (fun b => Some b) false 10 0 fs_empty
      (map (dg 7 2 [[1;2];[3]]) ixs)
    = [Ok None; Ok (Some [1;2;3]); Ok None; Ok (Some [1;2;3])].
Proof.
  exists [0;1;0;1]%nat. split.
  - exists [0;1]%nat, [0;1]%nat. split; [reflexivity|].
    split; intros j Hj; change (N.to_nat 2) with 2%nat in Hj;
      destruct j as [|[|j]]; cbn; try lia; auto.
  - vm_compute. reflexivity.
Qed.

(* non-vacuity: a concrete 3-fragment frame, delivered out of order with a duplicate *)
Example exact_example :
  recv_all bytes (fun b => Some b) true 10 0 fs_empty
    (map (dg 513 3 [[1;2];[3;4];[5]]) [2;0;2;1]%nat)
  = [Ok None; Ok None; Ok None; Ok (Some [1;2;3;4;5])].
Proof. vm_compute. reflexivity. Qed.
