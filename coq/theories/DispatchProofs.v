From RP Require Import Base Target MiluSyntax MiluParser MiluDoc MiluEval Dispatch.
From Coq Require Import ZArith String.

Section Proofs.
Variable parse_src : bytes -> pres expr.
Variable regex_match : bytes -> bytes -> option bool.
Variable cidr_match_text : bytes -> bytes -> bool.
Variable fuel : nat.

Notation rule_matches := (rule_matches regex_match cidr_match_text fuel).
Notation first_match := (first_match regex_match cidr_match_text fuel).
Notation process_request := (process_request regex_match cidr_match_text fuel).

(* a rule without a filter matches everything; a filter that fails to evaluate does not match *)
Lemma filterless_matches rq r : r_filter r = None -> rule_matches rq r = Ok true.
Proof. unfold Dispatch.rule_matches. intros ->. reflexivity. Qed.

Lemma failing_filter_no_match rq r e c :
  r_filter r = Some e -> real_value_of regex_match cidr_match_text rq fuel [] e = Err c ->
  rule_matches rq r = Ok false.
Proof. unfold Dispatch.rule_matches. intros -> ->. reflexivity. Qed.

(* first match wins: the selected rule is the first one, in configured order, that matches *)
Theorem first_match_wins rq : forall rs r,
  first_match rq rs = Ok (Some r) <->
  exists pre post, rs = pre ++ r :: post /\ rule_matches rq r = Ok true /\
                   Forall (fun r' => rule_matches rq r' = Ok false) pre.
Proof.
  induction rs as [|x rs IH]; intros r; cbn [Dispatch.first_match].
  - split; [discriminate|]. intros (pre & post & H & _). destruct pre; discriminate.
  - destruct (rule_matches rq x) as [[|]| |] eqn:Ex; cbn [obind].
    + split.
      * intros H. inversion H; subst. exists [], rs. auto.
      * intros (pre & post & H & Hm & Hpre). destruct pre as [|p pre].
        -- cbn in H. inversion H; subst. reflexivity.
        -- cbn in H. inversion H; subst. inversion Hpre; subst. congruence.
    + rewrite IH. split.
      * intros (pre & post & -> & Hm & Hpre). exists (x :: pre), post. auto.
      * intros (pre & post & H & Hm & Hpre). destruct pre as [|p pre].
        -- cbn in H. inversion H; subst. congruence.
        -- cbn in H. inversion H; subst. inversion Hpre; subst. eauto.
    + split; [discriminate|]. intros (pre & post & H & Hm & Hpre). destruct pre as [|p pre].
      * cbn in H. inversion H; subst. congruence.
      * cbn in H. inversion H; subst. inversion Hpre; subst. congruence.
    + split; [discriminate|]. intros (pre & post & H & Hm & Hpre). destruct pre as [|p pre].
      * cbn in H. inversion H; subst. congruence.
      * cbn in H. inversion H; subst. inversion Hpre; subst. congruence.
Qed.

Theorem default_deny rq : forall rs,
  first_match rq rs = Ok None <-> Forall (fun r' => rule_matches rq r' = Ok false) rs.
Proof.
  induction rs as [|x rs IH]; cbn [Dispatch.first_match].
  - split; auto.
  - destruct (rule_matches rq x) as [[|]| |] eqn:Ex; cbn [obind].
    + split; [discriminate|]. intros H. inversion H; congruence.
    + rewrite IH. split; [auto|]. intros H. inversion H; auto.
    + split; [discriminate|]. intros H. inversion H; congruence.
    + split; [discriminate|]. intros H. inversion H; congruence.
Qed.

(* an upstream is contacted only for the first matching rule, only if that rule names a real
   connector that carries the requested feature *)
Theorem connect_only_first_match rq rs conns feature payload t c :
  process_request rq rs conns feature payload = Ok t ->
  In (EvConnect c) (t_events t) ->
  exists r conn, first_match rq rs = Ok (Some r) /\ bytes_eq (r_target r) DENY = false /\
    find_conn (r_target r) conns = Some conn /\ c = c_name conn /\
    existsb (N.eqb feature) (c_feats conn) = true.
Proof.
  unfold Dispatch.process_request. destruct (first_match rq rs) as [[r|]| |]; cbn [obind]; try discriminate.
  - destruct (bytes_eq (r_target r) DENY) eqn:Ed.
    { intros H; inversion H; subst. cbn. intros [Hx|[]]; discriminate. }
    destruct (find_conn (r_target r) conns) as [conn|] eqn:Ec; [|discriminate].
    destruct (existsb (N.eqb feature) (c_feats conn)) eqn:Ef; cbn [negb].
    + destruct (c_ok conn); intros H; inversion H; subst; cbn; intros Hin.
      * destruct Hin as [Hx|[Hx|[Hx|[]]]]; try discriminate. inversion Hx; subst. eauto 10.
      * destruct Hin as [Hx|[Hx|[]]]; try discriminate. inversion Hx; subst. eauto 10.
    + intros H; inversion H; subst. cbn. intros [Hx|[]]; discriminate.
  - intros H; inversion H; subst. cbn. intros [Hx|[]]; discriminate.
Qed.

(* nothing leaks on deny: unless the upstream accepted, no payload byte is forwarded, no
   connector is recorded without a connect attempt, and the client gets exactly one error *)
Theorem deny_no_effects rq rs conns feature payload t :
  process_request rq rs conns feature payload = Ok t ->
  (forall c, ~ In (EvConnect c) (t_events t)) ->
  t_events t = [EvOnError] /\ t_forwarded t = [] /\ t_connector t = None /\ t_error t = true.
Proof.
  unfold Dispatch.process_request. destruct (first_match rq rs) as [[r|]| |]; cbn [obind]; try discriminate.
  - destruct (bytes_eq (r_target r) DENY); [intros H; inversion H; subst; auto|].
    destruct (find_conn (r_target r) conns) as [conn|]; [|discriminate].
    destruct (negb _); [intros H; inversion H; subst; auto|].
    destruct (c_ok conn); intros H; inversion H; subst; cbn; intros Hno;
      exfalso; apply (Hno (c_name conn)); left; reflexivity.
  - intros H; inversion H; subst; auto.
Qed.

Theorem forwarded_only_when_established rq rs conns feature payload t :
  process_request rq rs conns feature payload = Ok t -> t_forwarded t <> [] ->
  In EvOnConnect (t_events t) /\ t_forwarded t = payload /\ t_error t = false.
Proof.
  unfold Dispatch.process_request. destruct (first_match rq rs) as [[r|]| |]; cbn [obind]; try discriminate.
  - destruct (bytes_eq (r_target r) DENY); [intros H; inversion H; subst; cbn; congruence|].
    destruct (find_conn (r_target r) conns) as [conn|]; [|discriminate].
    destruct (negb _); [intros H; inversion H; subst; cbn; congruence|].
    destruct (c_ok conn); intros H; inversion H; subst; cbn; [|congruence].
    intros _. auto.
  - intros H; inversion H; subst; cbn; congruence.
Qed.

End Proofs.

(* ---- CIDR containment is range membership, for every width and prefix length ----------- *)

Theorem cidr_is_range w len net a :
  len <= w -> net mod 2 ^ (w - len) = 0 ->
  (cidr_contains w len net a = true <-> net <= a /\ a < net + 2 ^ (w - len)).
Proof.
  intros Hl Hnet. unfold cidr_contains. set (k := 2 ^ (w - len)) in *.
  assert (Hk : 0 < k) by (unfold k; apply N.neq_0_lt_0, N.pow_nonzero; lia).
  pose proof (N.div_mod net k ltac:(lia)) as Hn. rewrite Hnet in Hn.
  set (q := net / k) in *.
  pose proof (N.div_mod a k ltac:(lia)) as Ha.
  pose proof (N.mod_lt a k ltac:(lia)) as Hm.
  rewrite N.eqb_eq. clearbody q. clearbody k. split.
  - intros E. rewrite E in Ha. rewrite N.add_0_r in Hn. subst net.
    remember (a mod k) as r. remember (k * q) as m. clear -Ha Hm. split; lia.
  - intros [H1 H2]. rewrite N.add_0_r in Hn. symmetry. apply (N.div_unique a k q (a - net)); lia.
Qed.
