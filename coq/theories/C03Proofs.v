(* Round trips writer -> reader for every destination codec (property C03). *)
From RP Require Import Base Stream StreamProofs Target Socks Http Frames.

(* ---- generalities --------------------------------------------------------------------- *)

Lemma run_whole_bind {A B} (p : rp A) (f : A -> rp B) : forall s,
  run_whole (rbind p f) s =
  match run_whole p s with
  | (ROk a, rest, w) => let '(r, rest', w') := run_whole (f a) rest in (r, rest', w ++ w')
  | (RErr e, rest, w) => (RErr e, rest, w)
  | (REof, rest, w) => (REof, rest, w)
  | (RPanic c, rest, w) => (RPanic c, rest, w)
  end.
Proof.
  induction p as [a|e|c|k IH|n k IH|d k IH|bs k IH]; intros s; cbn [rbind run_whole].
  - destruct (run_whole (f a) s) as [[r rest] w]. reflexivity.
  - reflexivity.
  - reflexivity.
  - destruct s; [reflexivity|apply IH].
  - destruct (n <=? length s)%nat; [apply IH|reflexivity].
  - destruct (split_until d s) as [[p' r]|]; apply IH.
  - rewrite IH. destruct (run_whole k s) as [[[a|e| |c] rest] w]; try reflexivity.
    destruct (run_whole (f a) rest) as [[r rest'] w']. rewrite app_assoc. reflexivity.
Qed.

Lemma u16_roundtrip p rest : p < 65536 -> get_u16 (u16_be p ++ rest) = p.
Proof.
  intros H. unfold u16_be. cbn [app get_u16].
  rewrite (N.mod_small (p / 256)) by (apply N.div_lt_upper_bound; lia).
  pose proof (N.div_mod p 256 ltac:(lia)). lia.
Qed.

Lemma u32_roundtrip x rest : x < 4294967296 -> get_u32 (u32_be x ++ rest) = x.
Proof.
  intros H. unfold u32_be. cbn [app get_u32].
  rewrite (N.mod_small (x / 16777216)) by (apply N.div_lt_upper_bound; lia).
  assert (E1 : x / 256 / 256 = x / 65536) by (rewrite N.div_div by lia; reflexivity).
  assert (E2 : x / 65536 / 256 = x / 16777216) by (rewrite N.div_div by lia; reflexivity).
  pose proof (N.div_mod x 256 ltac:(lia)) as H0.
  pose proof (N.div_mod (x / 256) 256 ltac:(lia)) as H1.
  pose proof (N.div_mod (x / 65536) 256 ltac:(lia)) as H2.
  rewrite E1 in H1. rewrite E2 in H2. lia.
Qed.

Opaque u16_be u32_be.

Lemma firstn_len_app {A} (a b : list A) : firstn (length a) (a ++ b) = a.
Proof. rewrite firstn_app, Nat.sub_diag, firstn_all. cbn. apply app_nil_r. Qed.
Lemma skipn_len_app {A} (a b : list A) : skipn (length a) (a ++ b) = b.
Proof. rewrite skipn_app, Nat.sub_diag, skipn_all. reflexivity. Qed.

Lemma leb_len_app {A} (a b : list A) : (length a <=? length (a ++ b))%nat = true.
Proof. apply Nat.leb_le. rewrite app_length. lia. Qed.

(* reading exactly the bytes that were written *)
Lemma run_read_exact_app (a rest : bytes) :
  run_whole (read_exact (length a)) (a ++ rest) = (ROk a, rest, []).
Proof.
  unfold read_exact. cbn [run_whole]. rewrite leb_len_app, firstn_len_app, skipn_len_app. reflexivity.
Qed.

Lemma run_read_u8 b rest : run_whole read_u8 (b :: rest) = (ROk b, rest, []).
Proof. reflexivity. Qed.

Lemma run_read_u16 p rest : p < 65536 -> run_whole read_u16 (u16_be p ++ rest) = (ROk p, rest, []).
Proof.
  intros H. unfold read_u16. cbn [run_whole]. change (u16_be p ++ rest) with ((u16_be p) ++ rest).
  replace 2%nat with (length (u16_be p)) by reflexivity.
  rewrite leb_len_app, firstn_len_app, skipn_len_app.
  rewrite <- (app_nil_r (u16_be p)). rewrite u16_roundtrip by assumption. reflexivity.
Qed.

Lemma run_read_u32 x rest : x < 4294967296 -> run_whole read_u32 (u32_be x ++ rest) = (ROk x, rest, []).
Proof.
  intros H. unfold read_u32. cbn [run_whole].
  replace 4%nat with (length (u32_be x)) by reflexivity.
  rewrite leb_len_app, firstn_len_app, skipn_len_app.
  rewrite <- (app_nil_r (u32_be x)). rewrite u32_roundtrip by assumption. reflexivity.
Qed.

Lemma lossy_valid h : utf8_valid h = true -> lossy h = h.
Proof. unfold lossy. intros ->. reflexivity. Qed.

(* ---- destinations that exist in the implementation ------------------------------------ *)

Definition target_ok (t : target) : Prop :=
  match t with
  | TDomain h p => utf8_valid h = true /\ p < 65536
  | TV4 ip p => ip < 4294967296 /\ p < 65536
  | TV6 ip p => length ip = 16%nat /\ p < 65536
  | TUnknown => False
  end.

(* ---- SOCKS5 --------------------------------------------------------------------------- *)

Lemma run_rls h rest : len h <= 255 -> utf8_valid h = true ->
  run_whole read_length_and_string (len h :: h ++ rest) = (ROk h, rest, []).
Proof.
  intros Hl Hu. unfold read_length_and_string. rewrite run_whole_bind, run_read_u8.
  rewrite run_whole_bind. unfold len. rewrite Nat2N.id. rewrite run_read_exact_app.
  cbn [run_whole app]. rewrite lossy_valid by assumption. reflexivity.
Qed.

Theorem addr_v5_roundtrip t a rest :
  target_ok t -> addr_v5 t = Ok a -> run_whole read_addr_v5 (a ++ rest) = (ROk t, rest, []).
Proof.
  intros Hok Ha. unfold read_addr_v5. destruct t as [h p|ip p|ip p|]; cbn [addr_v5 target_ok] in *.
  - destruct Hok as [Hu Hp]. destruct (N.ltb_spec 255 (len h)); [discriminate|].
    injection Ha as <-. cbn [app]. rewrite run_whole_bind, run_read_u8. cbn [N.eqb Pos.eqb].
    rewrite run_whole_bind. rewrite <- app_assoc. rewrite run_rls by (auto; lia).
    rewrite run_whole_bind, run_read_u16 by assumption. reflexivity.
  - destruct Hok as [Hi Hp]. injection Ha as <-. cbn [app].
    rewrite run_whole_bind, run_read_u8. cbn [N.eqb Pos.eqb].
    rewrite run_whole_bind. rewrite <- app_assoc. rewrite run_read_u32 by assumption.
    rewrite run_whole_bind, run_read_u16 by assumption. reflexivity.
  - destruct Hok as [Hi Hp]. injection Ha as <-. cbn [app].
    rewrite run_whole_bind, run_read_u8. cbn [N.eqb Pos.eqb].
    rewrite run_whole_bind. rewrite <- app_assoc. rewrite <- Hi. rewrite run_read_exact_app.
    rewrite run_whole_bind, run_read_u16 by assumption. reflexivity.
  - contradiction.
Qed.

Theorem addr_v5_refuses_exactly t :
  target_ok t -> ((exists e, addr_v5 t = Err e) <-> exists h p, t = TDomain h p /\ 255 < len h).
Proof.
  intros Hok. destruct t as [h p|ip p|ip p|]; cbn [addr_v5 target_ok] in *; try contradiction.
  - destruct (N.ltb_spec 255 (len h)); split.
    + intros _. eauto.
    + intros _. eauto.
    + intros [e He]. discriminate.
    + intros (h' & p' & Heq & Hl). inversion Heq; subst. lia.
  - split; [intros [e He]; discriminate|intros (? & ? & H & _); discriminate].
  - split; [intros [e He]; discriminate|intros (? & ? & H & _); discriminate].
Qed.

(* the whole SOCKS5 exchange without authentication: what the connector writes when the
   upstream selects method 0 is read back by a listener as the same command and destination,
   and exactly the following bytes are left for the tunnel *)
Theorem socks5_request_roundtrip cmd t rest reply_rest :
  target_ok t -> (forall e, addr_v5 t <> Err e) ->
  exists w,
    run_whole (write_req_v5 cmd t None) ([5; 0] ++ reply_rest) = (ROk tt, reply_rest, w) /\
    run_whole (read_request false) (w ++ rest) = (ROk (mk_sreq 5 cmd t None), rest, [5; 0]).
Proof.
  intros Hok Hne. destruct (addr_v5 t) as [a|e|s] eqn:Ha.
  - exists ([5; 1; 0] ++ [5; cmd; 0] ++ a). split.
    + unfold write_req_v5. cbn [client_methods len length N.of_nat Pos.of_succ_nat app run_whole].
      rewrite run_whole_bind, run_read_u8. rewrite run_whole_bind, run_read_u8.
      cbn [contains existsb N.eqb Pos.eqb orb negb].
      rewrite run_whole_bind. unfold auth_v5_client. cbn [N.eqb run_whole].
      rewrite Ha. cbn [run_whole app]. rewrite app_nil_r. reflexivity.
    + unfold read_request. cbn [app]. rewrite run_whole_bind, run_read_u8. cbn [N.eqb Pos.eqb].
      unfold read_req_v5. rewrite run_whole_bind, run_read_u8. rewrite run_whole_bind.
      change (N.to_nat 1) with (length [0]). change (0 :: 5 :: cmd :: 0 :: a ++ rest) with ([0] ++ 5 :: cmd :: 0 :: a ++ rest).
      rewrite run_read_exact_app. cbn [select_method contains existsb N.eqb orb negb andb].
      cbn [run_whole]. unfold auth_v5_server. cbn [N.eqb]. rewrite run_whole_bind. cbn [run_whole].
      rewrite run_whole_bind, run_read_u8. rewrite run_whole_bind, run_read_u8.
      rewrite run_whole_bind, run_read_u8. rewrite run_whole_bind.
      rewrite (addr_v5_roundtrip t a rest Hok Ha). cbn [run_whole app]. reflexivity.
  - exfalso. eapply Hne; eauto.
  - destruct t; cbn in Ha; try discriminate; try contradiction.
    destruct (255 <? len host); discriminate.
Qed.

(* ---- SOCKS4 / SOCKS4a ----------------------------------------------------------------- *)

Lemma split_until_absent d s r :
  contains d s = false -> split_until d (s ++ d :: r) = Some (s ++ [d], r).
Proof.
  unfold contains. induction s as [|x s IH]; cbn [existsb app split_until]; intros H.
  - rewrite N.eqb_refl. reflexivity.
  - apply orb_false_iff in H. destruct H as [Hx Hs]. rewrite N.eqb_sym in Hx. rewrite Hx.
    rewrite IH by assumption. reflexivity.
Qed.

Lemma run_rnts s rest : has_nul s = false -> utf8_valid s = true -> len s < MAX_CSTRING ->
  run_whole read_null_terminated_string (s ++ 0 :: rest) = (ROk s, rest, []).
Proof.
  intros Hn Hu Hl. unfold read_null_terminated_string. cbn [run_whole].
  rewrite split_until_absent by exact Hn.
  assert (Hlen : (MAX_CSTRING <? len (s ++ [0])) = false).
  { apply N.ltb_ge. unfold len in *. rewrite app_length. cbn [length]. lia. }
  rewrite Hlen. cbn [run_whole].
  rewrite removelast_last, lossy_valid by assumption. reflexivity.
Qed.

(* the reader bounds SOCKS4 strings (terminator included) by MAX_CSTRING bytes *)
Definition fits_v4 (t : target) (auth : option (bytes * bytes)) : Prop :=
  len (client_id auth) < MAX_CSTRING /\
  match t with TDomain h _ => len h < MAX_CSTRING | _ => True end.

Theorem socks4_request_roundtrip cmd t auth bs rest required :
  target_ok t -> utf8_valid (client_id auth) = true -> fits_v4 t auth ->
  write_req_v4 cmd t auth = Ok bs ->
  run_whole (read_request required) (bs ++ rest) =
  (ROk (mk_sreq 4 cmd t (Some (client_id auth, []))), rest, []).
Proof.
  intros Hok Hcid [Hfc Hfh] Hw. unfold write_req_v4 in Hw.
  destruct t as [h p|ip p|ip p|]; cbn [target_ok] in Hok; try discriminate.
  - destruct Hok as [Hu Hp].
    destruct (has_nul (client_id auth) || has_nul h) eqn:Hn; [discriminate|].
    apply orb_false_iff in Hn. destruct Hn as [Hn1 Hn2]. injection Hw as <-.
    unfold read_request. cbn [app]. rewrite run_whole_bind, run_read_u8. cbn [N.eqb Pos.eqb].
    unfold read_req_v4. rewrite run_whole_bind, run_read_u8.
    rewrite run_whole_bind. rewrite <- !app_assoc. rewrite run_read_u16 by assumption.
    rewrite run_whole_bind. change ([0; 0; 0; 1] ++ ?x) with (0 :: 0 :: 0 :: 1 :: x).
    cbn [app]. unfold read_u32 at 1. cbn [run_whole Nat.leb length firstn skipn get_u32].
    rewrite run_whole_bind. rewrite <- ?app_assoc. cbn [app]. rewrite <- ?app_assoc. cbn [app].
    rewrite run_rnts by assumption.
    cbn [N.mul N.add N.ltb N.compare Pos.compare Pos.compare_cont].
    rewrite !run_whole_bind. rewrite run_rnts by assumption. cbn [run_whole app]. reflexivity.
  - destruct Hok as [Hi Hp]. destruct (N.ltb_spec ip 256) as [|Hge]; [discriminate|].
    destruct (has_nul (client_id auth)) eqn:Hn; [discriminate|]. injection Hw as <-.
    unfold read_request. cbn [app]. rewrite run_whole_bind, run_read_u8. cbn [N.eqb Pos.eqb].
    unfold read_req_v4. rewrite run_whole_bind, run_read_u8.
    rewrite run_whole_bind. rewrite <- !app_assoc. rewrite run_read_u16 by assumption.
    rewrite run_whole_bind. rewrite run_read_u32 by assumption.
    rewrite run_whole_bind. cbn [app]. rewrite run_rnts by assumption.
    destruct (N.ltb_spec ip 256); [lia|].
    rewrite !run_whole_bind. cbn [run_whole app]. reflexivity.
Qed.

Theorem socks4_refuses_exactly cmd t auth :
  target_ok t ->
  ((exists e, write_req_v4 cmd t auth = Err e) <->
   (has_nul (client_id auth) = true \/
    match t with
    | TDomain h _ => has_nul h = true
    | TV4 ip _ => ip < 256
    | TV6 _ _ => True
    | TUnknown => False
    end)).
Proof.
  intros Hok. unfold write_req_v4.
  destruct t as [h p|ip p|ip p|]; cbn [target_ok] in Hok; try contradiction.
  - destruct (has_nul (client_id auth)), (has_nul h); cbn [orb]; split;
      try (intros _; eauto; fail); try (intros [e He]; discriminate);
      intros [H|H]; discriminate.
  - destruct (N.ltb_spec ip 256) as [Hlt|Hge].
    + split; [intros _; right; assumption|intros _; eauto].
    + destruct (has_nul (client_id auth)); split;
        try (intros _; eauto; fail); try (intros [e He]; discriminate).
      intros [Hx|Hx]; [discriminate|lia].
  - split; [intros _; right; exact I|intros _; eauto].
Qed.

(* ---- RPFM frames ---------------------------------------------------------------------- *)

Lemma len_u16 x : length (u16_be x) = 2%nat. Proof. reflexivity. Qed.
Lemma len_u32 x : length (u32_be x) = 4%nat. Proof. reflexivity. Qed.

Lemma skipn_app_add {A} n m (a b : list A) :
  length a = n -> skipn (n + m) (a ++ b) = skipn m b.
Proof.
  intros <-. rewrite skipn_app. rewrite (skipn_all2 a) by lia.
  replace (length a + m - length a)%nat with m by lia. reflexivity.
Qed.

Lemma skipn_app_exact {A} n (a b : list A) : length a = n -> skipn n (a ++ b) = b.
Proof. intros <-. apply skipn_len_app. Qed.

Lemma firstn_app_exact {A} n (a b : list A) : length a = n -> firstn n (a ++ b) = a.
Proof. intros <-. apply firstn_len_app. Qed.

Definition addr_ok (a : option target) : Prop :=
  match a with
  | None => True
  | Some (TDomain h p) => utf8_valid h = true /\ p < 65536 /\ len h <= 253
  | Some t => target_ok t
  end.

Theorem address_roundtrip a : addr_ok a -> decode_address (encode_address a) = Ok a.
Proof.
  destruct a as [[h p|ip p|ip p|]|]; cbn [addr_ok target_ok encode_address]; intros Hok;
    try contradiction; try reflexivity.
  - destruct Hok as (Hu & Hp & Hl). rewrite N.mod_small by lia.
    unfold decode_address. cbn [app].
    assert (Hlen : len (3 :: len h + 2 :: h ++ u16_be p) = len h + 4).
    { unfold len. cbn [length]. rewrite app_length, len_u16. lia. }
    rewrite Hlen. destruct (N.ltb_spec (len h + 4) 2); [lia|].
    cbn [nth skipn N.eqb Pos.eqb].
    assert (Hr : len (h ++ u16_be p) = len h + 2) by (unfold len; rewrite app_length, len_u16; lia).
    rewrite Hr. destruct (N.ltb_spec (len h + 2) (len h + 2)); [lia|].
    destruct (N.ltb_spec (len h + 2) 2); [lia|].
    replace (N.to_nat (len h + 2 - 2)) with (length h) by (unfold len; lia).
    rewrite firstn_len_app, skipn_len_app, lossy_valid by assumption.
    rewrite <- (app_nil_r (u16_be p)), u16_roundtrip by assumption. reflexivity.
  - destruct Hok as (Hi & Hp). unfold decode_address. cbn [app].
    assert (Hlen : len (1 :: 6 :: u32_be ip ++ u16_be p) = 8) by reflexivity.
    rewrite Hlen. cbn [N.ltb N.compare Pos.compare Pos.compare_cont nth N.eqb Pos.eqb negb].
    change (skipn 2 (?x0 :: ?x1 :: ?xs)) with xs.
    assert (Hr : len (u32_be ip ++ u16_be p) = 6) by reflexivity. rewrite Hr.
    cbn [N.ltb N.compare Pos.compare Pos.compare_cont].
    rewrite u32_roundtrip by assumption.
    rewrite (skipn_app_exact 4) by reflexivity. cbn [skipn].
    rewrite <- (app_nil_r (u16_be p)), u16_roundtrip by assumption. reflexivity.
  - destruct Hok as (Hi & Hp). unfold decode_address. cbn [app].
    assert (Hlen : len (2 :: 18 :: ip ++ u16_be p) = 20).
    { unfold len. cbn [length]. rewrite app_length, len_u16, Hi. reflexivity. }
    rewrite Hlen. cbn [N.ltb N.compare Pos.compare Pos.compare_cont nth N.eqb Pos.eqb negb].
    change (skipn 2 (?x0 :: ?x1 :: ?xs)) with xs.
    assert (Hr : len (ip ++ u16_be p) = 18).
    { unfold len. rewrite app_length, len_u16, Hi. reflexivity. }
    rewrite Hr. cbn [N.ltb N.compare Pos.compare Pos.compare_cont].
    rewrite <- Hi. rewrite firstn_len_app, skipn_len_app.
    rewrite <- (app_nil_r (u16_be p)), u16_roundtrip by assumption. reflexivity.
Qed.

Lemma encode_address_len a : addr_ok a -> len (encode_address a) <= 257.
Proof.
  destruct a as [[h p|ip p|ip p|]|]; cbn [addr_ok target_ok encode_address]; intros Hok;
    try contradiction; unfold len in *; cbn [length app]; rewrite ?app_length, ?len_u16, ?len_u32; try lia.
  all: try (destruct Hok as (_ & _ & Hl); lia).
  all: try (destruct Hok as [Hi _]; rewrite Hi; lia).
Qed.

Opaque MAGIC.

Definition frame_ok (f : frame) : Prop := addr_ok (f_addr f) /\ f_sid f < 4294967296.

(* what reaches the wire for an encodable frame is decoded by the next hop as the same frame
   (address, session id, body), whatever follows it in the buffer *)
Lemma hdr_parts sid al bl (tail : bytes) :
  let buf := MAGIC ++ u32_be sid ++ u16_be al ++ u16_be bl ++ tail in
  firstn 4 buf = MAGIC /\
  skipn 4 buf = u32_be sid ++ u16_be al ++ u16_be bl ++ tail /\
  skipn 8 buf = u16_be al ++ u16_be bl ++ tail /\
  skipn 10 buf = u16_be bl ++ tail /\
  skipn 12 buf = tail /\
  (forall k, skipn (12 + k) buf = skipn k tail).
Proof. repeat split. Qed.

Theorem frame_roundtrip f bs extra :
  frame_ok f -> encode_frame f = Ok bs -> from_buffer (bs ++ extra) = Ok f.
Proof.
  intros [Ha Hs] He. unfold encode_frame in He.
  destruct (encodable f) eqn:Henc; [|discriminate].
  assert (Hbs : bs = make_header f ++ f_body f) by (injection He; auto). subst bs. clear He.
  unfold encodable in Henc. apply andb_true_iff in Henc. destruct Henc as [_ Hb].
  apply N.leb_le in Hb.
  pose proof (encode_address_len _ Ha) as Hal.
  unfold make_header. set (a := encode_address (f_addr f)) in *.
  rewrite (N.mod_small (len a)) by lia. rewrite (N.mod_small (len (f_body f))) by lia.
  rewrite <- !app_assoc.
  set (tail := a ++ f_body f ++ extra).
  destruct (hdr_parts (f_sid f) (len a) (len (f_body f)) tail) as (H0 & H4 & H8 & H10 & H12 & H12k).
  cbv zeta in H0, H4, H8, H10, H12, H12k.
  unfold from_buffer.
  assert (Hlen : len (MAGIC ++ u32_be (f_sid f) ++ u16_be (len a) ++ u16_be (len (f_body f)) ++ tail)
                 = 12 + len a + len (f_body f) + len extra).
  { unfold len, tail. rewrite !app_length, len_u32, !len_u16.
    change (length MAGIC) with 4%nat. lia. }
  rewrite Hlen. destruct (N.ltb_spec (12 + len a + len (f_body f) + len extra) 12); [lia|].
  rewrite H0, H4, H8, H10, H12, H12k.
  change (bytes_eqb MAGIC MAGIC) with true. cbn [negb].
  rewrite u32_roundtrip by assumption. rewrite !u16_roundtrip by lia.
  destruct (N.ltb_spec (12 + len a + len (f_body f) + len extra) (12 + len a + len (f_body f))); [lia|].
  unfold tail.
  replace (N.to_nat (len a)) with (length a) by (unfold len; lia).
  rewrite firstn_len_app, skipn_len_app.
  replace (N.to_nat (len (f_body f))) with (length (f_body f)) by (unfold len; lia).
  rewrite firstn_len_app.
  unfold a. rewrite address_roundtrip by assumption. cbn [obind].
  destruct f; reflexivity.
Qed.

Theorem frame_refuses_exactly f :
  (exists e, encode_frame f = Err e) <-> encodable f = false.
Proof.
  unfold encode_frame. destruct (encodable f); split; try (intros [e He]; discriminate); eauto; discriminate.
Qed.

(* ---- SOCKS5 UDP header ---------------------------------------------------------------- *)

Theorem udp_roundtrip t body bs :
  target_ok t -> encode_udp (Some t) body = Ok bs -> decode_udp bs = Ok (t, body).
Proof.
  intros Hok He. destruct t as [h p|ip p|ip p|]; cbn [target_ok encode_udp] in *; try contradiction.
  - destruct Hok as [Hu Hp]. destruct (N.ltb_spec 255 (len h)); [discriminate|]. injection He as <-.
    unfold decode_udp. cbn [app].
    assert (Hl : len (5 :: 3 :: 0 :: 3 :: len h :: h ++ u16_be p ++ body) = 5 + len h + 2 + len body).
    { unfold len. cbn [length]. rewrite !app_length, len_u16. lia. }
    rewrite Hl. destruct (N.ltb_spec (5 + len h + 2 + len body) 4); [lia|].
    cbn [nth N.eqb Pos.eqb]. change (skipn 4 (?x0 :: ?x1 :: ?x2 :: ?x3 :: ?xs)) with xs. cbn beta iota.
    assert (Hr : len (h ++ u16_be p ++ body) = len h + 2 + len body).
    { unfold len. rewrite !app_length, len_u16. lia. }
    rewrite Hr. destruct (N.ltb_spec (len h + 2 + len body) (len h + 2)); [lia|].
    replace (N.to_nat (len h)) with (length h) by (unfold len; lia).
    rewrite firstn_len_app, Hu, skipn_len_app, u16_roundtrip by assumption.
    rewrite (skipn_app_add (length h) 2) by reflexivity.
    rewrite (skipn_app_exact 2) by reflexivity. reflexivity.
  - destruct Hok as [Hi Hp]. injection He as <-. unfold decode_udp. cbn [app].
    assert (Hl : len (5 :: 3 :: 0 :: 1 :: u32_be ip ++ u16_be p ++ body) = 10 + len body).
    { unfold len. cbn [length]. rewrite !app_length, len_u32, len_u16. lia. }
    rewrite Hl. destruct (N.ltb_spec (10 + len body) 4); [lia|].
    cbn [nth N.eqb Pos.eqb]. change (skipn 4 (?x0 :: ?x1 :: ?x2 :: ?x3 :: ?xs)) with xs. cbn beta iota.
    assert (Hr : len (u32_be ip ++ u16_be p ++ body) = 6 + len body).
    { unfold len. rewrite !app_length, len_u32, len_u16. lia. }
    rewrite Hr. destruct (N.ltb_spec (6 + len body) 6); [lia|].
    rewrite u32_roundtrip by assumption.
    rewrite (skipn_app_exact 4) by reflexivity. rewrite u16_roundtrip by assumption.
    change 6%nat with (4 + 2)%nat. rewrite (skipn_app_add 4 2) by reflexivity.
    rewrite (skipn_app_exact 2) by reflexivity. reflexivity.
  - destruct Hok as [Hi Hp]. injection He as <-. unfold decode_udp. cbn [app].
    assert (Hl : len (5 :: 3 :: 0 :: 4 :: ip ++ u16_be p ++ body) = 22 + len body).
    { unfold len. cbn [length]. rewrite !app_length, len_u16, Hi. lia. }
    rewrite Hl. destruct (N.ltb_spec (22 + len body) 4); [lia|].
    cbn [nth N.eqb Pos.eqb]. change (skipn 4 (?x0 :: ?x1 :: ?x2 :: ?x3 :: ?xs)) with xs. cbn beta iota.
    assert (Hr : len (ip ++ u16_be p ++ body) = 18 + len body).
    { unfold len. rewrite !app_length, len_u16, Hi. lia. }
    rewrite Hr. destruct (N.ltb_spec (18 + len body) 18); [lia|].
    change 18%nat with (16 + 2)%nat.
    rewrite <- Hi. rewrite firstn_len_app, skipn_len_app, u16_roundtrip by assumption.
    rewrite (skipn_app_add (length ip) 2) by reflexivity.
    rewrite (skipn_app_exact 2) by reflexivity. reflexivity.
Qed.
