(* Reader programs: the shape of every stream decoder in redproxy-rs (tokio AsyncBufRead
   primitives read_u8 / read_exact / read_until / read_line, interleaved with writes to the
   same socket).  Two interpreters: `run_whole` over the complete remaining input, and
   `run_chunked` over a BufReader buffer plus the list of segments the network will deliver.
   StreamProofs.v proves they agree for every program and every segmentation. *)
From RP Require Import Base.

Inductive res (A : Type) : Type :=
| ROk (a : A)
| RErr (e : N)          (* protocol error raised by the decoder *)
| REof                  (* the stream ended inside a read (tokio: UnexpectedEof / 0 bytes) *)
| RPanic (site : N).    (* the Rust code would panic here *)
Arguments ROk {A} a.
Arguments RErr {A} e.
Arguments REof {A}.
Arguments RPanic {A} site.

Inductive rp (A : Type) : Type :=
| Ret (a : A)
| Fail (e : N)
| Crash (site : N)
| ReadU8 (k : N -> rp A)
| ReadExact (n : nat) (k : bytes -> rp A)
| ReadUntil (d : N) (k : bytes -> bool -> rp A)   (* bytes include the delimiter when found *)
| Write (bs : bytes) (k : rp A).                   (* bytes written (and flushed) to the peer *)
Arguments Ret {A} a.
Arguments Fail {A} e.
Arguments Crash {A} site.
Arguments ReadU8 {A} k.
Arguments ReadExact {A} n k.
Arguments ReadUntil {A} d k.
Arguments Write {A} bs k.

Fixpoint rbind {A B} (p : rp A) (f : A -> rp B) : rp B :=
  match p with
  | Ret a => f a
  | Fail e => Fail e
  | Crash s => Crash s
  | ReadU8 k => ReadU8 (fun b => rbind (k b) f)
  | ReadExact n k => ReadExact n (fun bs => rbind (k bs) f)
  | ReadUntil d k => ReadUntil d (fun bs fd => rbind (k bs fd) f)
  | Write bs k => Write bs (rbind k f)
  end.
Notation "x <~ e ;; k" := (rbind e (fun x => k)) (at level 61, e at next level, right associativity).

Definition read_u8 : rp N := ReadU8 (fun b => Ret b).
Definition read_exact (n : nat) : rp bytes := ReadExact n (fun bs => Ret bs).
Definition read_u16 : rp N := ReadExact 2 (fun bs => Ret (get_u16 bs)).
Definition read_u32 : rp N := ReadExact 4 (fun bs => Ret (get_u32 bs)).
Definition write (bs : bytes) : rp unit := Write bs (Ret tt).

(* split at the first occurrence of d, delimiter included in the prefix *)
Fixpoint split_until (d : N) (s : bytes) : option (bytes * bytes) :=
  match s with
  | [] => None
  | b :: s' => if b =? d then Some ([b], s')
               else match split_until d s' with
                    | Some (p, r) => Some (b :: p, r)
                    | None => None
                    end
  end.

(* result, unread input, bytes written *)
Fixpoint run_whole {A} (p : rp A) (s : bytes) : res A * bytes * bytes :=
  match p with
  | Ret a => (ROk a, s, [])
  | Fail e => (RErr e, s, [])
  | Crash c => (RPanic c, s, [])
  | ReadU8 k => match s with
                | [] => (REof, [], [])
                | b :: s' => run_whole (k b) s'
                end
  | ReadExact n k => if Nat.leb n (length s) then run_whole (k (firstn n s)) (skipn n s)
                     else (REof, [], [])
  | ReadUntil d k => match split_until d s with
                     | Some (p', r) => run_whole (k p' true) r
                     | None => run_whole (k s false) []
                     end
  | Write bs k => let '(r, rest, w) := run_whole k s in (r, rest, bs ++ w)
  end.

(* operational: BufReader buffer + future segments; an empty segment or the end of the list is
   EOF (a 0-byte read) *)
Definition sst := (bytes * list bytes)%type.

Definition pull1 (rbuf : bytes) (cs : list bytes) : option (N * sst) :=
  match rbuf with
  | b :: r => Some (b, (r, cs))
  | [] => match cs with
          | [] => None
          | c :: cs' => match c with
                        | b :: r => Some (b, (r, cs'))
                        | [] => None
                        end
          end
  end.

Fixpoint take (n : nat) (acc rbuf : bytes) (cs : list bytes) : option (bytes * sst) :=
  if Nat.leb n (length rbuf) then Some (acc ++ firstn n rbuf, (skipn n rbuf, cs))
  else match cs with
       | [] => None
       | c :: cs' => match c with
                     | [] => None
                     | _ => take (n - length rbuf) (acc ++ rbuf) c cs'
                     end
       end.

Fixpoint until_ (d : N) (acc rbuf : bytes) (cs : list bytes) : bytes * bool * sst :=
  match split_until d rbuf with
  | Some (p, r) => (acc ++ p, true, (r, cs))
  | None => match cs with
            | [] => (acc ++ rbuf, false, ([], []))
            | c :: cs' => match c with
                          | [] => (acc ++ rbuf, false, ([], []))
                          | _ => until_ d (acc ++ rbuf) c cs'
                          end
            end
  end.

Fixpoint run_chunked {A} (p : rp A) (s : sst) : res A * sst * bytes :=
  match p with
  | Ret a => (ROk a, s, [])
  | Fail e => (RErr e, s, [])
  | Crash c => (RPanic c, s, [])
  | ReadU8 k => match pull1 (fst s) (snd s) with
                | None => (REof, ([], []), [])
                | Some (b, s') => run_chunked (k b) s'
                end
  | ReadExact n k => match take n [] (fst s) (snd s) with
                     | None => (REof, ([], []), [])
                     | Some (bs, s') => run_chunked (k bs) s'
                     end
  | ReadUntil d k => let '(bs, found, s') := until_ d [] (fst s) (snd s) in
                     run_chunked (k bs found) s'
  | Write bs k => let '(r, rest, w) := run_chunked k s in (r, rest, bs ++ w)
  end.

Definition flat (s : sst) : bytes := fst s ++ concat (snd s).
Definition wf_chunks (cs : list bytes) : Prop := Forall (fun c => c <> []) cs.
