(* Blank skipping: skip_blank is insensitive to leading white space, and fixed points. *)
From RP Require Import Base Target MiluSyntax MiluParser.
From Coq Require Import ZArith String Lia.

Definition is_space_char (c : N) : Prop := is_space c = true.

Lemma span_snd_length (p : N -> bool) (i : bytes) : (List.length (snd (span p i)) <= List.length i)%nat.
Proof.
  induction i as [|b r IH]; cbn [span]; [cbn; lia|].
  destruct (p b); [|cbn; lia].
  destruct (span p r) as [a rest]. cbn [snd] in *. cbn [List.length]. lia.
Qed.

Lemma find_close_length (i rest : bytes) : find_close i = Some rest -> (List.length rest <= List.length i)%nat.
Proof.
  revert rest. induction i as [|b r IH]; intros rest H; [discriminate|].
  cbn [find_close] in H.
  assert (D : (exists r', b = 42 /\ r = 47 :: r' /\ rest = r') \/ find_close r = Some rest).
  { destruct b as [|p]; [right; exact H|].
    destruct (N.eq_dec (N.pos p) 42) as [E|NE].
    - inversion E; subst p. destruct r as [|c r']; [right; exact H|].
      destruct (N.eq_dec c 47) as [E2|NE2].
      + subst c. left. exists r'. inversion H. auto.
      + right. destruct c as [|q]; [exact H|].
        repeat (destruct q as [q|q|]; try exact H; try (exfalso; apply NE2; reflexivity)).
    - right. repeat (destruct p as [p|p|]; try exact H; try (exfalso; apply NE; reflexivity)). }
  destruct D as [(r' & -> & -> & ->)|D]; cbn [List.length]; [lia|].
  apply IH in D. lia.
Qed.

Lemma sbf_enough : forall f g i, (List.length i < f)%nat -> (List.length i < g)%nat ->
  skip_blank_fuel f i = skip_blank_fuel g i.
Proof.
  induction f as [|f IH]; intros g i Hf Hg; [lia|].
  destruct g as [|g]; [lia|].
  cbn [skip_blank_fuel]. destruct i as [|b r]; [reflexivity|].
  cbn [List.length] in *.
  destruct (is_space b).
  { pose proof (span_snd_length is_space r). apply IH; lia. }
  destruct (b =? 35).
  { pose proof (span_snd_length (fun x => negb ((x =? 10) || (x =? 13))) r). apply IH; lia. }
  destruct ((b =? 47) && match r with 42 :: _ => true | _ => false end); [|reflexivity].
  destruct (find_close (tl r)) as [rest|] eqn:E; [|reflexivity].
  apply find_close_length in E. assert ((List.length (tl r) <= List.length r)%nat) by (destruct r; cbn; lia).
  apply IH; lia.
Qed.

Lemma span_space_app (ws i : bytes) : Forall is_space_char ws ->
  snd (span is_space (ws ++ i)) = snd (span is_space i).
Proof.
  induction 1 as [|c ws Hc _ IH]; [reflexivity|].
  cbn [app span]. rewrite Hc. destruct (span is_space (ws ++ i)) as [a rest]. exact IH.
Qed.

Lemma sbf_span : forall F F' i, (List.length i < F)%nat -> (List.length i < F')%nat ->
  skip_blank_fuel F (snd (span is_space i)) = skip_blank_fuel F' i.
Proof.
  intros F F' i HF HF'. destruct i as [|c r].
  - cbn. destruct F, F'; reflexivity.
  - destruct F' as [|F']; [lia|]. cbn [skip_blank_fuel span]. cbn [List.length] in *.
    destruct (is_space c) eqn:E.
    + destruct (span is_space r) as [a rest] eqn:E2. cbn [snd].
      pose proof (span_snd_length is_space r) as L. rewrite E2 in L. cbn [snd] in L.
      apply sbf_enough; lia.
    + cbn [snd]. rewrite (sbf_enough F (S F') (c :: r)) by (cbn [List.length]; lia).
      cbn [skip_blank_fuel]. rewrite E. reflexivity.
Qed.

Lemma skip_blank_ws : forall ws i, Forall is_space_char ws -> skip_blank (ws ++ i) = skip_blank i.
Proof.
  intros ws i H. destruct H as [|c ws Hc Hws]; [reflexivity|].
  unfold skip_blank. rewrite <- app_comm_cons.
  change (skip_blank_fuel (S (List.length (c :: ws ++ i))) (c :: ws ++ i))
    with (if is_space c then skip_blank_fuel (List.length (c :: ws ++ i)) (snd (span is_space (ws ++ i)))
          else if c =? 35 then
            skip_blank_fuel (List.length (c :: ws ++ i)) (snd (span (fun x => negb ((x =? 10) || (x =? 13))) (ws ++ i)))
          else if (c =? 47) && (match ws ++ i with 42 :: _ => true | _ => false end) then
            match find_close (tl (ws ++ i)) with
            | Some rest => skip_blank_fuel (List.length (c :: ws ++ i)) rest
            | None => c :: ws ++ i
            end
          else c :: ws ++ i).
  rewrite Hc. rewrite span_space_app by exact Hws.
  apply sbf_span; cbn [List.length]; rewrite ?app_length; lia.
Qed.

(* a character that does not start a blank *)
Definition nonblank (c : N) (r : bytes) : bool :=
  negb (is_space c) && negb (c =? 35) && negb ((c =? 47) && match r with 42 :: _ => true | _ => false end).

Lemma skip_blank_nil : skip_blank [] = [].
Proof. reflexivity. Qed.

Lemma skip_blank_nonblank c r : nonblank c r = true -> skip_blank (c :: r) = c :: r.
Proof.
  unfold nonblank. intros H. apply andb_true_iff in H. destruct H as [H H3].
  apply andb_true_iff in H. destruct H as [H1 H2].
  apply negb_true_iff in H1, H2, H3.
  unfold skip_blank. cbn [List.length skip_blank_fuel]. rewrite H1, H2, H3. reflexivity.
Qed.

Lemma skip_blank_sp c r : nonblank c r = true -> skip_blank (32 :: c :: r) = c :: r.
Proof.
  intros H. change (32 :: c :: r) with ([32] ++ c :: r).
  rewrite skip_blank_ws; [apply skip_blank_nonblank; exact H|].
  constructor; [reflexivity|constructor].
Qed.

(* ---- closed blank strings: white space, `# ... newline` and `/* ... */` comments ---------- *)

Definition not_nl (x : N) : bool := negb ((x =? 10) || (x =? 13)).

Inductive blank_str : bytes -> Prop :=
| blank_nil : blank_str []
| blank_ws c ws : is_space c = true -> blank_str ws -> blank_str (c :: ws)
| blank_hash body nl ws : forallb not_nl body = true -> not_nl nl = false -> blank_str ws ->
    blank_str (35 :: body ++ nl :: ws)
| blank_block body ws : find_close body = None -> blank_str ws ->
    blank_str (47 :: 42 :: body ++ 42 :: 47 :: ws).

Lemma skip_blank_space c r : is_space c = true -> skip_blank (c :: r) = skip_blank r.
Proof.
  intros H. change (c :: r) with ([c] ++ r). apply skip_blank_ws. constructor; [exact H|constructor].
Qed.

Lemma skip_blank_hash r : skip_blank (35 :: r) = skip_blank (snd (span not_nl r)).
Proof.
  unfold skip_blank at 1.
  change (skip_blank_fuel (S (List.length (35 :: r))) (35 :: r))
    with (skip_blank_fuel (List.length (35 :: r)) (snd (span not_nl r))).
  pose proof (span_snd_length not_nl r). unfold skip_blank. apply sbf_enough; cbn [List.length]; lia.
Qed.

Lemma skip_blank_block r rest : find_close r = Some rest -> skip_blank (47 :: 42 :: r) = skip_blank rest.
Proof.
  intros H. unfold skip_blank at 1.
  change (skip_blank_fuel (S (List.length (47 :: 42 :: r))) (47 :: 42 :: r))
    with (match find_close r with
          | Some rest => skip_blank_fuel (List.length (47 :: 42 :: r)) rest
          | None => 47 :: 42 :: r end).
  rewrite H. pose proof (find_close_length r rest H). unfold skip_blank. apply sbf_enough; cbn [List.length]; lia.
Qed.

Lemma span_not_nl body nl r : forallb not_nl body = true -> not_nl nl = false ->
  snd (span not_nl (body ++ nl :: r)) = nl :: r.
Proof.
  intros Hb Hn. induction body as [|b body IH].
  - cbn [app span]. rewrite Hn. reflexivity.
  - cbn [forallb] in Hb. apply andb_true_iff in Hb. destruct Hb as [H1 H2].
    cbn [app span]. rewrite H1. destruct (span not_nl (body ++ nl :: r)) as [a rest] eqn:E.
    cbn [snd] in *. apply IH. exact H2.
Qed.

Lemma find_close_step b r : find_close (b :: r) =
  match b, r with 42, 47 :: r' => Some r' | _, _ => find_close r end.
Proof.
  cbn [find_close]. destruct b as [|p]; [reflexivity|].
  do 6 (try destruct p as [p|p|]); reflexivity.
Qed.

Lemma find_close_app body rest : find_close body = None -> find_close (body ++ 42 :: 47 :: rest) = Some rest.
Proof.
  induction body as [|b body IH]; intros H; [reflexivity|].
  rewrite find_close_step in H. cbn [app]. rewrite find_close_step.
  destruct (N.eq_dec b 42) as [->|Hb].
  - destruct body as [|c body'].
    + reflexivity.
    + cbn [app]. destruct (N.eq_dec c 47) as [->|Hc]; [discriminate H|].
      assert (E : forall (X : bytes -> option bytes) (Y : option bytes) r', match 42, c :: r' with 42, 47 :: r'' => X r'' | _, _ => Y end = Y).
      { intros X Y r'. destruct c as [|q]; [reflexivity|].
        do 6 (try destruct q as [q|q|]); try reflexivity. exfalso; apply Hc; reflexivity. }
      rewrite (E (fun r'' => Some r'')) in H. rewrite (E (fun r'' => Some r'')). apply (IH H).
  - assert (E : forall (X : bytes -> option bytes) (Y : option bytes) l,
               match b, l with 42, 47 :: r'' => X r'' | _, _ => Y end = Y).
    { intros X Y l. destruct b as [|p]; [reflexivity|].
      do 6 (try destruct p as [p|p|]); try reflexivity. exfalso; apply Hb; reflexivity. }
    rewrite (E (fun r'' => Some r'')) in H. rewrite (E (fun r'' => Some r'')). apply (IH H).
Qed.

Lemma not_nl_space nl : not_nl nl = false -> is_space nl = true.
Proof.
  unfold not_nl, is_space. intros H. apply negb_false_iff in H. apply orb_true_iff in H.
  destruct H as [H|H]; rewrite H; rewrite ?orb_true_r; reflexivity.
Qed.

Theorem skip_blank_closed : forall bs i, blank_str bs -> skip_blank (bs ++ i) = skip_blank i.
Proof.
  intros bs i H. induction H as [|c ws Hc _ IH|body nl ws Hb Hn _ IH|body ws Hb _ IH].
  - reflexivity.
  - cbn [app]. rewrite skip_blank_space by exact Hc. exact IH.
  - cbn [app]. rewrite skip_blank_hash. rewrite <- app_assoc. cbn [app].
    rewrite span_not_nl by assumption. rewrite skip_blank_space by (apply not_nl_space; exact Hn). exact IH.
  - cbn [app]. rewrite <- app_assoc. cbn [app].
    rewrite (skip_blank_block _ (ws ++ i)) by (apply find_close_app; exact Hb). exact IH.
Qed.
