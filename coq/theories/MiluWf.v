(* Executable counterpart of wf_lf (MiluSound.v): the correspondence check evaluates it on every
   program the model parses, which ties the hypothesis of the soundness theorems to what the
   parser actually produces (a theorem `parse src = POk e -> no let, no [] -> wf_lf e` is not
   proved; this runtime check stands in for it and is reported in the evidence). *)
From RP Require Import Base Target MiluSyntax MiluDoc MiluEval MiluSound.
From Coq Require Import ZArith String.

Definition call_okb (f : expr) (args : list expr) : bool :=
  match f with
  | ENat name =>
    negb (String.eqb name "Scope") &&
    match native_arity name with Some n => (List.length args =? n)%nat | None => true end &&
    (if String.eqb name "Access" then
       match args with [_; EId _] | [_; EInt _] => true | _ => false end
     else true)
  | _ => true
  end.

Fixpoint wf_lfb (e : expr) : bool :=
  let fix all (l : list expr) : bool :=
    match l with [] => true | x :: r => wf_lfb x && all r end in
  match e with
  | EInt _ | EBool _ | EStr _ | EId _ | ENat _ => true
  | EArr l => match l with [] => false | _ => all l end
  | ETup l => all l
  | ECall f args => wf_lfb f && all args && call_okb f args
  end.

Lemma call_okb_sound f args : call_okb f args = true -> call_ok f args.
Proof.
  unfold call_okb, call_ok. destruct f; auto. intros H.
  apply andb_true_iff in H. destruct H as [H H3]. apply andb_true_iff in H. destruct H as [H1 H2].
  split; [apply negb_true_iff in H1; apply String.eqb_neq; exact H1|]. split.
  - intros n Hn. rewrite Hn in H2. apply Nat.eqb_eq. exact H2.
  - intros ->. cbn in H3. destruct args as [|a [|i [|]]]; try discriminate.
    destruct i; try discriminate; exact I.
Qed.

Lemma wf_lfb_sound : forall e, wf_lfb e = true -> wf_lf e.
Proof.
  fix IH 1. intros e.
  assert (Hall : forall l, (fix all (l : list expr) : bool :=
                              match l with [] => true | x :: r => wf_lfb x && all r end) l = true -> Forall wf_lf l).
  { induction l as [|x r IHl]; intros H; [constructor|].
    apply andb_true_iff in H. destruct H as [H1 H2]. constructor; [apply IH; exact H1|apply IHl; exact H2]. }
  destruct e; cbn [wf_lfb]; intros H; try constructor.
  - destruct l; [discriminate|discriminate].
  - destruct l; [discriminate|]. apply Hall. exact H.
  - apply Hall. exact H.
  - apply andb_true_iff in H. destruct H as [H H3]. apply andb_true_iff in H. destruct H as [H1 H2]. apply IH. exact H1.
  - apply andb_true_iff in H. destruct H as [H H3]. apply andb_true_iff in H. destruct H as [H1 H2]. apply Hall. exact H2.
  - apply andb_true_iff in H. destruct H as [H H3]. apply call_okb_sound. exact H3.
Qed.
