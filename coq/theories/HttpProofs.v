(* The CONNECT line: what h11c_connect writes is read back by h11c_handshake as the same
   destination, with exactly the following bytes left for the tunnel (property C03, HTTP hop). *)
From RP Require Import Base Stream StreamProofs Target Socks Http C03Proofs PortText.

(* ---- UTF-8 concatenation -------------------------------------------------------------- *)

Lemma utf8_app : forall n a b, (length a <= n)%nat ->
  utf8_valid a = true -> utf8_valid (a ++ b) = utf8_valid b.
Proof.
  induction n as [|n IH]; intros a b Hl Ha.
  - destruct a; [reflexivity|cbn in Hl; lia].
  - destruct a as [|b0 r0]; [reflexivity|].
    cbn [utf8_valid app] in *.
    destruct (b0 <? 128). { apply IH; [cbn [length] in Hl; lia|exact Ha]. }
    destruct r0 as [|b1 r1]; [discriminate|]. cbn [app].
    destruct (in_range 194 223 b0).
    { apply andb_true_iff in Ha. destruct Ha as [-> Ha]. cbn [andb].
      apply IH; [cbn [length] in Hl; lia|exact Ha]. }
    destruct r1 as [|b2 r2]; [discriminate|]. cbn [app].
    destruct (b0 =? 224).
    { apply andb_true_iff in Ha. destruct Ha as [Hc Ha]. rewrite Hc. cbn [andb].
      apply IH; [cbn [length] in Hl; lia|exact Ha]. }
    destruct (in_range 225 236 b0 || in_range 238 239 b0).
    { apply andb_true_iff in Ha. destruct Ha as [Hc Ha]. rewrite Hc. cbn [andb].
      apply IH; [cbn [length] in Hl; lia|exact Ha]. }
    destruct (b0 =? 237).
    { apply andb_true_iff in Ha. destruct Ha as [Hc Ha]. rewrite Hc. cbn [andb].
      apply IH; [cbn [length] in Hl; lia|exact Ha]. }
    destruct r2 as [|b3 r3]; [discriminate|]. cbn [app].
    destruct (b0 =? 240).
    { apply andb_true_iff in Ha. destruct Ha as [Hc Ha]. rewrite Hc. cbn [andb].
      apply IH; [cbn [length] in Hl; lia|exact Ha]. }
    destruct (in_range 241 243 b0).
    { apply andb_true_iff in Ha. destruct Ha as [Hc Ha]. rewrite Hc. cbn [andb].
      apply IH; [cbn [length] in Hl; lia|exact Ha]. }
    destruct (b0 =? 244); [|discriminate].
    apply andb_true_iff in Ha. destruct Ha as [Hc Ha]. rewrite Hc. cbn [andb].
    apply IH; [cbn [length] in Hl; lia|exact Ha].
Qed.

Lemma utf8_app_valid a b : utf8_valid a = true -> utf8_valid b = true -> utf8_valid (a ++ b) = true.
Proof. intros Ha Hb. rewrite (utf8_app (length a)) by auto. exact Hb. Qed.

(* ---- lines ---------------------------------------------------------------------------- *)

(* bytes a CONNECT resource may contain: anything above space except DEL *)
Definition safe_byte (b : N) : bool := (32 <? b) && negb (b =? 127).

Lemma safe_not_ws b : safe_byte b = true -> is_ascii_ws b = false.
Proof.
  unfold safe_byte, is_ascii_ws. intros H. apply andb_true_iff in H. destruct H as [H _].
  apply N.ltb_lt in H.
  destruct (N.eqb_spec b 32), (N.eqb_spec b 9), (N.eqb_spec b 10), (N.eqb_spec b 12), (N.eqb_spec b 13);
    try lia; reflexivity.
Qed.

Lemma safe_no_lf r : forallb safe_byte r = true -> contains 10 r = false.
Proof.
  unfold contains. induction r as [|b r IH]; cbn [forallb existsb]; intros H; [reflexivity|].
  apply andb_true_iff in H. destruct H as [Hb Hr]. rewrite IH by assumption.
  unfold safe_byte in Hb. apply andb_true_iff in Hb. destruct Hb as [Hb _]. apply N.ltb_lt in Hb.
  destruct (N.eqb_spec 10 b); [lia|reflexivity].
Qed.

Lemma contains_app x a b : contains x (a ++ b) = contains x a || contains x b.
Proof. unfold contains. apply existsb_app. Qed.

Lemma trim_rev_plain b r1 : b < 128 -> (b =? 32) || ((9 <=? b) && (b <=? 13)) = false ->
  trim_rev (b :: r1) = b :: r1.
Proof.
  intros Hb Hws. cbn [trim_rev]. rewrite Hws.
  assert (E : forall k, 128 <= k -> (b =? k) = false) by (intros k Hk; apply N.eqb_neq; lia).
  destruct r1 as [|c r2]; [reflexivity|].
  rewrite (E 133), (E 160) by lia. cbn [orb]. rewrite andb_false_r.
  destruct r2 as [|d r3]; [reflexivity|].
  rewrite (E 128), (E 168), (E 169), (E 175), (E 159) by lia.
  assert (E2 : (128 <=? b) = false) by (apply N.leb_gt; lia). rewrite E2.
  cbn [andb orb]. rewrite !andb_false_r. reflexivity.
Qed.

(* a line whose last byte is plain ASCII loses exactly its CRLF *)
Lemma trim_end_crlf s b : b < 128 -> (b =? 32) || ((9 <=? b) && (b <=? 13)) = false ->
  trim_end ((s ++ [b]) ++ CRLF) = s ++ [b].
Proof.
  intros Hb Hws. unfold trim_end, CRLF. rewrite !frev_rev. rewrite rev_app_distr. cbn [rev app].
  cbn [trim_rev N.eqb Pos.eqb N.leb N.compare Pos.compare Pos.compare_cont orb andb].
  rewrite rev_app_distr. cbn [rev app]. rewrite trim_rev_plain by assumption.
  cbn [rev]. rewrite rev_involutive. reflexivity.
Qed.

Lemma split_ws_token : forall t s cur acc,
  forallb safe_byte t = true ->
  split_ws_go (t ++ s) cur acc = split_ws_go s (rev t ++ cur) acc.
Proof.
  induction t as [|b t IH]; intros s cur acc H; [reflexivity|].
  cbn [forallb] in H. apply andb_true_iff in H. destruct H as [Hb Ht].
  cbn [app split_ws_go]. rewrite (safe_not_ws b Hb). rewrite IH by assumption.
  cbn [rev]. rewrite <- app_assoc. reflexivity.
Qed.

Lemma safe_plain_ascii t : forallb plain t = true -> forallb safe_byte t = true.
Proof.
  induction t as [|b t IH]; cbn [forallb]; intros H; [reflexivity|].
  apply andb_true_iff in H. destruct H as [Hb Ht]. rewrite IH by assumption.
  unfold plain in Hb. unfold safe_byte. apply andb_true_iff in Hb. destruct Hb as [H1 H2].
  rewrite H1. apply N.ltb_lt in H2. destruct (N.eqb_spec b 127); [lia|reflexivity].
Qed.

Lemma ascii_utf8 t : forallb (fun b => b <? 128) t = true -> utf8_valid t = true.
Proof.
  induction t as [|b t IH]; cbn [forallb utf8_valid]; intros H; [reflexivity|].
  apply andb_true_iff in H. destruct H as [-> Ht]. auto.
Qed.

(* resources that can travel on the request line *)
Definition resource_ok (r : bytes) : Prop :=
  utf8_valid r = true /\ forallb safe_byte r = true /\
  exists r0 b, r = r0 ++ [b] /\ b < 128.

Lemma resource_last_plain r0 b : forallb safe_byte (r0 ++ [b]) = true ->
  (b =? 32) || ((9 <=? b) && (b <=? 13)) = false.
Proof.
  rewrite forallb_app. intros H. apply andb_true_iff in H. destruct H as [_ H].
  cbn [forallb] in H. rewrite andb_true_r in H. unfold safe_byte in H.
  apply andb_true_iff in H. destruct H as [H _]. apply N.ltb_lt in H.
  destruct (N.eqb_spec b 32), (N.leb_spec 9 b), (N.leb_spec b 13); cbn; try lia; reflexivity.
Qed.

Definition connect_req (r : bytes) : http_req := mk_hreq CONNECT r HTTP11 [(HOST, r)].

Lemma run_read_line l rest :
  contains 10 l = false -> utf8_valid (l ++ [10]) = true -> len l < MAX_LINE ->
  run_whole read_line (l ++ 10 :: rest) = (ROk (l ++ [10]), rest, []).
Proof.
  intros Hn Hu Hl. unfold read_line. cbn [run_whole]. rewrite split_until_absent by assumption.
  assert (Hlen : (MAX_LINE <? len (l ++ [10])) = false).
  { apply N.ltb_ge. unfold len in *. rewrite app_length. cbn [length]. lia. }
  rewrite Hlen, Hu. reflexivity.
Qed.

Theorem connect_head_roundtrip r rest fuel :
  resource_ok r -> len r <= 65000 -> (2 <= fuel)%nat ->
  run_whole (read_http_request fuel) (write_http_request (connect_req r) ++ rest) =
  (ROk (connect_req r), rest, []).
Proof.
  intros (Hu & Hs & r0 & b & Hr & Hb) Hlen Hf.
  pose proof (safe_no_lf r Hs) as Hlf.
  assert (Hws : (b =? 32) || ((9 <=? b) && (b <=? 13)) = false)
    by (apply (resource_last_plain r0); rewrite <- Hr; exact Hs).
  unfold write_http_request, connect_req. cbn [hq_method hq_resource hq_version hq_headers].
  unfold write_headers. cbn [map concat fst snd]. rewrite app_nil_r.
  (* request line *)
  set (line1 := CONNECT ++ [32] ++ r ++ [32] ++ HTTP11 ++ [13]).
  set (line2 := HOST ++ [58; 32] ++ r ++ [13]).
  assert (E : (CONNECT ++ [32] ++ r ++ [32] ++ HTTP11 ++ CRLF ++ (HOST ++ [58; 32] ++ r ++ CRLF) ++ CRLF) ++ rest
              = line1 ++ 10 :: line2 ++ 10 :: [13] ++ 10 :: rest).
  { unfold line1, line2, CRLF. rewrite <- !app_assoc. cbn [app]. rewrite <- ?app_assoc. reflexivity. }
  rewrite E. clear E.
  unfold read_http_request. rewrite run_whole_bind.
  assert (Hplain : forall t, forallb plain t = true -> contains 10 t = false)
    by (intros t Ht; apply safe_no_lf, safe_plain_ascii; exact Ht).
  assert (Hl1 : contains 10 line1 = false).
  { unfold line1. rewrite !contains_app, Hlf. reflexivity. }
  assert (Hu1 : utf8_valid (line1 ++ [10]) = true).
  { unfold line1. rewrite <- !app_assoc.
    apply utf8_app_valid; [reflexivity|]. apply utf8_app_valid; [reflexivity|].
    apply utf8_app_valid; [exact Hu|]. reflexivity. }
  assert (Hll1 : len line1 < MAX_LINE).
  { unfold line1, len in *. rewrite !app_length. cbn [length CONNECT HTTP11]. unfold MAX_LINE. lia. }
  rewrite run_read_line by assumption.
  assert (Ht1 : trim_end (line1 ++ [10]) = CONNECT ++ [32] ++ r ++ [32] ++ HTTP11).
  { unfold line1. change HTTP11 with ([72; 84; 84; 80; 47; 49; 46] ++ [49]).
    replace ((CONNECT ++ [32] ++ r ++ [32] ++ ([72; 84; 84; 80; 47; 49; 46] ++ [49]) ++ [13]) ++ [10])
      with (((CONNECT ++ [32] ++ r ++ [32] ++ [72; 84; 84; 80; 47; 49; 46]) ++ [49]) ++ CRLF)
      by (unfold CRLF; rewrite <- !app_assoc; reflexivity).
    rewrite trim_end_crlf by (reflexivity || lia). rewrite <- !app_assoc. reflexivity. }
  rewrite Ht1.
  assert (Hsp : split_ascii_whitespace (CONNECT ++ [32] ++ r ++ [32] ++ HTTP11) = [CONNECT; r; HTTP11]).
  { unfold split_ascii_whitespace. rewrite split_ws_token by reflexivity.
    cbn [app split_ws_go is_ascii_ws N.eqb Pos.eqb orb]. rewrite split_ws_token by exact Hs.
    cbn [app split_ws_go is_ascii_ws N.eqb Pos.eqb orb].
    rewrite app_nil_r, ?frev_rev, rev_involutive.
    destruct (rev r) as [|x xs] eqn:Er.
    { apply (f_equal (@rev _)) in Er. rewrite rev_involutive in Er. subst r.
      destruct r0; discriminate. }
    reflexivity. }
  rewrite Hsp. change (starts_with HTTP_SLASH HTTP11) with true. cbn beta iota.
  rewrite run_whole_bind.
  (* headers *)
  destruct fuel as [|[|f]]; try lia. cbn [read_headers].
  rewrite run_whole_bind.
  assert (Hl2 : contains 10 line2 = false).
  { unfold line2. rewrite !contains_app, Hlf. reflexivity. }
  assert (Hu2 : utf8_valid (line2 ++ [10]) = true).
  { unfold line2. rewrite <- !app_assoc.
    apply utf8_app_valid; [reflexivity|]. apply utf8_app_valid; [reflexivity|].
    apply utf8_app_valid; [exact Hu|]. reflexivity. }
  assert (Hll2 : len line2 < MAX_LINE).
  { unfold line2, len in *. rewrite !app_length. cbn [length HOST]. unfold MAX_LINE. lia. }
  rewrite run_read_line by assumption.
  assert (Ht2 : trim_end (line2 ++ [10]) = HOST ++ [58; 32] ++ r).
  { unfold line2. rewrite Hr.
    replace ((HOST ++ [58; 32] ++ (r0 ++ [b]) ++ [13]) ++ [10])
      with (((HOST ++ [58; 32] ++ r0) ++ [b]) ++ CRLF)
      by (unfold CRLF; rewrite <- !app_assoc; reflexivity).
    rewrite trim_end_crlf by assumption. rewrite <- !app_assoc. reflexivity. }
  rewrite Ht2.
  assert (Hne : HOST ++ [58; 32] ++ r <> []) by discriminate.
  destruct (HOST ++ [58; 32] ++ r) as [|h0 hs] eqn:Eh; [contradiction|]. rewrite <- Eh.
  change (split_once_colon_sp (HOST ++ [58; 32] ++ r)) with (Some (HOST, r)). cbn beta iota.
  change (MAX_HEADERS <=? len (@nil header)) with false. cbn beta iota.
  rewrite run_whole_bind.
  change ([13] ++ 10 :: rest) with ([13] ++ 10 :: rest).
  rewrite (run_read_line [13] rest) by (reflexivity || (unfold MAX_LINE, len; cbn; lia)).
  change (trim_end ([13] ++ [10])) with (@nil N). cbn [rev run_whole app]. reflexivity.
Qed.

(* ---- the destination on the CONNECT line ---------------------------------------------- *)

Lemma rsplit_last_absent c t : contains c t = false -> rsplit_last c t = None.
Proof.
  unfold contains. induction t as [|x t IH]; cbn [existsb rsplit_last]; intros H; [reflexivity|].
  apply orb_false_iff in H. destruct H as [Hx Ht]. rewrite IH by assumption.
  rewrite N.eqb_sym. rewrite Hx. reflexivity.
Qed.

Lemma rsplit_last_app c h t : contains c t = false -> rsplit_last c (h ++ c :: t) = Some (h, t).
Proof.
  intros Ht. induction h as [|x h IH]; cbn [app rsplit_last].
  - rewrite rsplit_last_absent by assumption. rewrite N.eqb_refl. reflexivity.
  - rewrite IH. reflexivity.
Qed.

Lemma digits_facts d : forallb is_digit d = true ->
  contains 58 d = false /\ forallb plain d = true /\ forallb (fun b => b <? 128) d = true.
Proof.
  unfold contains. induction d as [|b d IH]; cbn [forallb existsb]; intros H; [auto|].
  apply andb_true_iff in H. destruct H as [Hb Hd]. destruct (IH Hd) as (I1 & I2 & I3).
  rewrite I1, I2, I3. unfold is_digit, in_range in Hb. apply andb_true_iff in Hb.
  destruct Hb as [H1 H2]. apply N.leb_le in H1. apply N.leb_le in H2.
  unfold plain. repeat split.
  - destruct (N.eqb_spec 58 b); [lia|reflexivity].
  - apply andb_true_iff. split; [|reflexivity]. apply andb_true_iff. split; apply N.ltb_lt; lia.
  - apply andb_true_iff. split; [apply N.ltb_lt; lia|reflexivity].
Qed.

Lemma host_safe_is_safe h : host_line_safe h = true -> forallb safe_byte h = true.
Proof. intros H. exact H. Qed.

Section Connect.
Variable print_sockaddr : target -> bytes.
Variable parse_sockaddr : bytes -> option target.

(* what the theorem needs from std's text form of IP socket addresses *)
Definition sockaddr_text_ok : Prop :=
  forall t, target_ok t -> (match t with TV4 _ _ | TV6 _ _ => True | _ => False end) ->
    forallb plain (print_sockaddr t) = true /\ print_sockaddr t <> [] /\
    len (print_sockaddr t) <= 65000 /\
    parse_sockaddr (print_sockaddr t) = Some t.

(* the reader bounds every head line by MAX_LINE bytes *)
Definition fits_line (t : target) : Prop :=
  match t with TDomain h _ => len h <= 64000 | _ => True end.

(* a domain that reads as an IP literal is that address for the next hop *)
Definition canon (t : target) : target :=
  match parse_sockaddr (print_target print_sockaddr t) with Some t' => t' | None => t end.

Lemma plain_resource r : forallb plain r = true -> r <> [] -> resource_ok r.
Proof.
  intros Hp Hne. split; [|split].
  - apply ascii_utf8. clear Hne. induction r as [|b r IH]; cbn [forallb] in *; [reflexivity|].
    apply andb_true_iff in Hp. destruct Hp as [Hb Hr]. rewrite IH by assumption.
    unfold plain in Hb. apply andb_true_iff in Hb. destruct Hb as [_ Hb]. apply N.ltb_lt in Hb.
    rewrite andb_true_r. apply N.ltb_lt. lia.
  - apply safe_plain_ascii. exact Hp.
  - destruct (exists_last Hne) as (r0 & b & ->). exists r0, b. split; [reflexivity|].
    rewrite forallb_app in Hp. apply andb_true_iff in Hp. destruct Hp as [_ Hb].
    cbn [forallb] in Hb. rewrite andb_true_r in Hb. unfold plain in Hb.
    apply andb_true_iff in Hb. destruct Hb as [_ Hb]. apply N.ltb_lt in Hb. lia.
Qed.

Theorem connect_roundtrip t bs rest fuel :
  sockaddr_text_ok -> target_ok t -> fits_line t -> (2 <= fuel)%nat ->
  write_connect print_sockaddr t = Ok bs ->
  run_whole (read_connect parse_sockaddr fuel) (bs ++ rest) = (ROk (canon t), rest, []).
Proof.
  intros Htext Hok Hfit Hf Hw. unfold write_connect in Hw.
  destruct (target_line_safe t) eqn:Hsafe; [|discriminate].
  set (r := print_target print_sockaddr t) in *.
  assert (Hres : resource_ok r /\ len r <= 65000 /\ parse_target parse_sockaddr r = Some (canon t)).
  { unfold canon. fold r. destruct t as [h p|ip p|ip p|]; cbn [target_ok] in Hok; try contradiction.
    - destruct Hok as [Hu Hp]. destruct (port_text p Hp) as (Hparse & Hdig & Hne & Hdl).
      destruct (digits_facts _ Hdig) as (H58 & Hplain & Hascii).
      unfold r. cbn [print_target]. split.
      + split; [|split].
        * apply utf8_app_valid; [exact Hu|]. apply (utf8_app_valid [58]); [reflexivity|].
          apply ascii_utf8. exact Hascii.
        * rewrite !forallb_app. cbn [target_line_safe] in Hsafe.
          rewrite (host_safe_is_safe _ Hsafe). cbn [forallb safe_byte N.ltb N.compare Pos.compare Pos.compare_cont N.eqb Pos.eqb negb andb].
          apply safe_plain_ascii. exact Hplain.
        * destruct (exists_last Hne) as (d0 & b & Hd). exists (h ++ [58] ++ d0), b. split.
          -- rewrite Hd. rewrite <- !app_assoc. reflexivity.
          -- rewrite Hd in Hascii. rewrite forallb_app in Hascii. apply andb_true_iff in Hascii.
             destruct Hascii as [_ Hb]. cbn [forallb] in Hb. rewrite andb_true_r in Hb.
             apply N.ltb_lt in Hb. exact Hb.
      + split.
        { cbn [fits_line] in Hfit. unfold len in *. rewrite !app_length. cbn [length]. lia. }
        unfold parse_target. destruct (parse_sockaddr (h ++ [58] ++ dec p)); [reflexivity|].
        cbn [app]. rewrite rsplit_last_app by exact H58. rewrite Hparse. reflexivity.
    - destruct (Htext (TV4 ip p) Hok I) as (Hpl & Hne & Hll & Hpp). unfold r. cbn [print_target].
      split; [apply plain_resource; assumption|]. split; [exact Hll|].
      unfold parse_target. rewrite Hpp. reflexivity.
    - destruct (Htext (TV6 ip p) Hok I) as (Hpl & Hne & Hll & Hpp). unfold r. cbn [print_target].
      split; [apply plain_resource; assumption|]. split; [exact Hll|].
      unfold parse_target. rewrite Hpp. reflexivity. }
  destruct Hres as (Hres & Hrl & Hparse).
  assert (Hwh : with_header HOST r [] = [(HOST, r)]).
  { unfold with_header. destruct r as [|x xs] eqn:Er; [|reflexivity].
    destruct Hres as (_ & _ & r0 & b & Hr & _). destruct r0; discriminate. }
  rewrite Hwh in Hw. injection Hw as <-.
  unfold read_connect. rewrite run_whole_bind.
  change (mk_hreq CONNECT r HTTP11 [(HOST, r)]) with (connect_req r).
  rewrite connect_head_roundtrip by assumption.
  cbn [connect_req hq_resource]. rewrite Hparse. cbn [run_whole app]. reflexivity.
Qed.

Theorem connect_refuses_exactly t :
  (exists e, write_connect print_sockaddr t = Err e) <-> target_line_safe t = false.
Proof.
  unfold write_connect. destruct (target_line_safe t); split; try (intros [e He]; discriminate); eauto; discriminate.
Qed.

End Connect.
