(* Extraction of the executable models for the correspondence check.
   Directives: ExtrOcamlBasic only (bool, option, unit, list, prod, sumbool, sumor; inlined
   andb/orb/negb).  Numbers stay inductive. *)
From Coq Require Extraction.
From Coq Require Import ExtrOcamlBasic.
From RP Require Import Base Frag.
Extraction Language OCaml.
Set Extraction KeepSingleton.
Extraction "model.ml" frag_run make_fragments.
