(* Extraction of the executable models for the correspondence check.
   Directives: ExtrOcamlBasic only (bool, option, unit, list, prod, sumbool, sumor; inlined
   andb/orb/negb).  Numbers stay inductive. *)
From Coq Require Extraction.
From Coq Require Import ExtrOcamlBasic.
From RP Require Import Base Stream Target Socks Http Frames Frag MiluSyntax MiluParser MiluDoc MiluEval Dispatch MiluSound MiluWf MiluSoundLet Reload Lb Callbacks RtLeaf MiluRoundtrip MiluRoundtripWs Idle Config Registry Auth QuicDgram Exec.
Extraction Language OCaml.
Set Extraction KeepSingleton.
Extraction "model.ml" frag_run make_fragments
  x_socks_req_read x_socks_req_write5 write_req_v4 x_socks_resp_read write_response
  x_http_req_read x_http_resp_read write_http_request write_http_response
  from_buffer encode_frame x_sfr_all decode_udp encode_udp
  x_milu_parse x_type_of x_real_type_of x_real_value_of x_dispatch x_rrun x_member_at x_wf_lfb x_cidr_contains x_cidr_net_ok ty_eqb x_print_target x_parse_target x_write_connect x_write_connect_udp x_connect_reply x_read_connect utf8_valid x_client_bytes x_rt_print x_rt_denote x_rt_num x_idle_check x_tcp_period x_udp_period x_table_ok x_resolve x_state_log x_lifecycle_ok x_select_method x_auth_check x_wf_slb x_rt_print_ws x_dgram_hop x_ids_of x_drun.
